package metrics

// Replay for the known defect (fixed): the sliding-window cleaner dropped live samples whenever an
// expired sample preceded them. Obligation: metrics.slidingWindow.cleaner@tick/post/[kept], [len].

import (
	"testing"
	"time"
)

func TestVerifReplayC19Cleaner(t *testing.T) {
	w, err := newWindow(time.Hour)
	if err != nil {
		t.Fatal(err)
	}
	now := time.Now()
	w.samples = []sample{{11, now.Add(-time.Minute)}, {22, now.Add(time.Hour)}, {33, now.Add(time.Hour)}}
	go w.cleaner()
	time.Sleep(1300 * time.Millisecond)
	w.stopping <- struct{}{}
	got := w.Samples()
	if len(got) != 2 || got[0] != 22 || got[1] != 33 {
		t.Fatalf("live samples lost: got %v, want [22 33]", got)
	}
}
