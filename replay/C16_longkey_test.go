package cdb

// Replay for the defect (C16): the writer stores, for each record, the hash that a STREAMING spooky hasher
// (cdbHash(): Reset, Write(key), Sum32) yields, while the reader's lookup computed the one-shot
// spooky.Hash32(key). The two agree except for keys of 96..191 bytes, where the library's streaming and
// one-shot forms differ: a record with such a key is written but can never be found.
// Obligation: cdb.Cdb.find/assert/before Cdb.readNums#0 [hash].

import (
	"bytes"
	"os"
	"testing"
)

func TestVerifReplayC16LongKey(t *testing.T) {
	for _, n := range []int{1, 95, 96, 100, 150, 191, 192, 255} {
		f, err := os.CreateTemp("", "verif_cdb")
		if err != nil {
			t.Fatal(err)
		}
		name := f.Name()
		f.Close()
		defer os.Remove(name)
		w, err := NewWriter(name)
		if err != nil {
			t.Fatal(err)
		}
		key := bytes.Repeat([]byte{'k'}, n)
		if err := w.Put(key, []byte("value")); err != nil {
			t.Fatal(err)
		}
		if err := w.Close(); err != nil {
			t.Fatal(err)
		}
		c, err := Open(name)
		if err != nil {
			t.Fatal(err)
		}
		v, err := c.Find(key, NewContext())
		if err != nil || !bytes.Equal(v, []byte("value")) {
			t.Errorf("key of %d bytes: written with Put, but Find returned %q, %v", n, v, err)
		}
		c.Close()
	}
}
