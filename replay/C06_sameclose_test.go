package db

// Replay for the known defect (fixed): a catch-up reload (same backend) whose validation key is missing
// closed the backend that is still being served. Obligation: db.DB.Reload@done/post/[fail] #1.

import (
	"net"
	"testing"
	"time"
)

type verifRecDBI struct {
	closed int
	used   int // uses after close
}

type verifCtx struct{}

func (verifCtx) Reset() {}

func (d *verifRecDBI) touch() {
	if d.closed > 0 {
		d.used++
	}
}
func (d *verifRecDBI) NewContext() Context { d.touch(); return verifCtx{} }
func (d *verifRecDBI) Find(key []byte, c Context) ([]byte, error) { d.touch(); return nil, nil }
func (d *verifRecDBI) ForEach(key []byte, f func(value []byte) error, c Context) error {
	d.touch()
	return nil // no row: validation key not found
}
func (d *verifRecDBI) FreeContext(Context) { d.touch() }
func (d *verifRecDBI) FindMap(domain, mtype []byte, c Context) ([]byte, error) { d.touch(); return nil, nil }
func (d *verifRecDBI) GetLocationByMap(ipnet *net.IPNet, mapID []byte, c Context) ([]byte, uint8, error) {
	d.touch()
	return nil, 0, nil
}
func (d *verifRecDBI) Close() error                      { d.closed++; return nil }
func (d *verifRecDBI) Reload(path string) (DBI, error)   { d.touch(); return d, nil } // catch-up: same backend
func (d *verifRecDBI) GetStats() map[string]int64        { return nil }
func (d *verifRecDBI) ClosestKeyFinder() ClosestKeyFinder { return nil }

func TestVerifReplayC06SameBackendValidationFail(t *testing.T) {
	b := &verifRecDBI{}
	served := &DB{dbi: b}
	got, err := served.Reload("same", []byte("validation-key"), time.Second)
	if err == nil {
		t.Fatalf("expected validation failure")
	}
	if got != served {
		t.Fatalf("failed reload must keep the served DB")
	}
	if b.closed != 0 {
		t.Fatalf("served backend was closed %d time(s) by a failed catch-up reload", b.closed)
	}
	r, _ := NewReader(served)
	r.Close()
	if b.used != 0 {
		t.Fatalf("backend used %d time(s) after close", b.used)
	}
}
