package dnsserver

// Replay for the known defect (fixed): FBDNSDB.Reload dereferenced h.dnsdb without checking that a database
// was ever loaded. NewFBDNSDB starts the reload consumer and the periodic reload ticker before Load() is
// called, so a reload signal that arrives first (slow first Load, or a handler whose Load failed) made the
// reload goroutine panic with a nil pointer dereference — in a goroutine, so the whole server dies.
// Obligation: dnsserver.FBDNSDB.Reload/nil/receiver of h.dnsdb.Reload(...) #0.

import (
	"os"
	"testing"
	"time"

	"github.com/facebookincubator/dns/dnsrocks/dnsserver/stats"
)

func TestVerifReplayC05ReloadBeforeLoad(t *testing.T) {
	h, err := NewFBDNSDBBasic(
		HandlerConfig{},
		DBConfig{Path: "/nonexistent/verif/path", Driver: "cdb", ReloadInterval: 10},
		CacheConfig{Enabled: false},
		&TextLogger{IoWriter: os.Stderr},
		&stats.DummyStats{},
	)
	if err != nil {
		t.Fatal(err)
	}
	if err := h.Load(); err == nil {
		t.Fatal("Load of a missing path succeeded")
	}
	// the signal the periodic reloader sends every ReloadInterval seconds
	err = h.Reload(*NewPartialReloadSignal())
	t.Logf("Reload on a handler without a loaded DB: err=%v", err)
	if err == nil {
		t.Errorf("REPLAY-VIOLATED reload without a database reported success")
	}
	// on the defective code the reload goroutine started by db.(*DB).Reload dereferences the nil *DB a moment
	// later and takes the process down: give it the time to do so inside this test
	time.Sleep(300 * time.Millisecond)
}
