package dnsserver

// Replay for the known defect (fixed): the response-cache key was built with "%.3d%.3d%.3d%s" over (location
// id, qtype, qclass, name). "%.3d" pads to AT LEAST three digits, so type and class values of four or five
// digits shift the field boundaries: (type 257, class 1, "0www.example.com.") and (type 2570, class 10,
// "www.example.com.") both give "...2570010www.example.com.". The second query is then answered from the
// first one's cache entry: a query for www.example.com. receives the CAA records of 0www.example.com.
// Obligation: dnsserver.FBDNSDB.ServeDNSWithRCODE/assert/before Cache.Get#0 [key-injective].

import (
	"os"
	"path"
	"testing"

	"github.com/coredns/coredns/plugin/pkg/dnstest"
	"github.com/miekg/dns"

	"github.com/facebookincubator/dns/dnsrocks/dnsdata/cdb"
	"github.com/facebookincubator/dns/dnsrocks/dnsserver/stats"
	"github.com/facebookincubator/dns/dnsrocks/dnsserver/test"
)

const verifC12Data = `Zexample.com,a.ns.example.com,dns.example.com,123,7200,1800,604800,120,120,,
&example.com,,a.ns.example.com,172800,,
+a.ns.example.com,5.5.5.5,172800,,
:0www.example.com,257,\000\005issueca.example.net,300,,
`

func verifC12Query(t *testing.T, h *FBDNSDB, name string, qtype, qclass uint16) *dns.Msg {
	req := new(dns.Msg)
	req.SetQuestion(name, qtype)
	req.Question[0].Qclass = qclass
	rec := dnstest.NewRecorder(&test.ResponseWriterCustomRemote{RemoteIP: "1.2.3.4"})
	if _, err := h.ServeDNSWithRCODE(CreateTestContext(1), rec, req); err != nil {
		t.Fatal(err)
	}
	if rec.Msg == nil {
		t.Fatal("no reply")
	}
	return rec.Msg
}

func TestVerifReplayC12CacheKeyCollision(t *testing.T) {
	dir := t.TempDir()
	in := path.Join(dir, "data.in")
	if err := os.WriteFile(in, []byte(verifC12Data), 0o644); err != nil {
		t.Fatal(err)
	}
	cdbPath := path.Join(dir, "data.cdb")
	if _, err := cdb.CreateCDB(in, cdbPath, cdb.NewDefaultCreatorOptions()); err != nil {
		t.Fatal(err)
	}
	mk := func(cache bool) *FBDNSDB {
		h, err := NewFBDNSDBBasic(HandlerConfig{}, DBConfig{Path: cdbPath, Driver: "cdb", ReloadInterval: 100},
			CacheConfig{Enabled: cache, LRUSize: 128}, &TextLogger{IoWriter: os.Stderr}, &stats.DummyStats{})
		if err != nil {
			t.Fatal(err)
		}
		if err := h.Load(); err != nil {
			t.Fatal(err)
		}
		t.Cleanup(func() { h.Close() })
		return h
	}
	cached, plain := mk(true), mk(false)
	first := verifC12Query(t, cached, "0www.example.com.", 257, dns.ClassINET)
	if len(first.Answer) != 1 {
		t.Fatalf("set-up: the CAA query should have one answer, got %v", first.Answer)
	}
	want := verifC12Query(t, plain, "www.example.com.", 2570, 10)
	got := verifC12Query(t, cached, "www.example.com.", 2570, 10)
	t.Logf("TYPE2570 CLASS10 www.example.com.: without cache rcode=%d answers=%d; with cache rcode=%d answers=%v", want.Rcode, len(want.Answer), got.Rcode, got.Answer)
	if got.Rcode != want.Rcode || len(got.Answer) != len(want.Answer) {
		t.Errorf("REPLAY-VIOLATED the cached server answers a different query's entry: rcode %d with %d answer(s) instead of rcode %d with %d", got.Rcode, len(got.Answer), want.Rcode, len(want.Answer))
	}
}
