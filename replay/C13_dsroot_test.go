package dnsserver

// Replay for the known defect (fixed): a DS query for the root name against a database whose root is only
// delegated (NS at ".", no SOA) re-evaluated authority at the "parent" of the root with an empty name and
// panicked inside IsAuthoritative. Obligation: dnsserver.FBDNSDB.ServeDNSWithRCODE/pre/Reader.IsAuthoritative requires len(q)>=1 #1.

import (
	"context"
	"os"
	"path/filepath"
	"testing"

	cdbc "github.com/facebookincubator/dns/dnsrocks/dnsdata/cdb"
	"github.com/facebookincubator/dns/dnsrocks/dnsserver/stats"
	"github.com/facebookincubator/dns/dnsrocks/dnsserver/test"

	"github.com/coredns/coredns/plugin/pkg/dnstest"
	"github.com/miekg/dns"
)

func TestVerifReplayC13DSRoot(t *testing.T) {
	tmp := t.TempDir()
	in := filepath.Join(tmp, "data.in")
	// root delegation: NS for "." and glue, no SOA anywhere
	data := "&,,a.root-servers.example,172800,,\n+a.root-servers.example,198.51.100.1,172800,,\n"
	if err := os.WriteFile(in, []byte(data), 0o600); err != nil {
		t.Fatal(err)
	}
	out := filepath.Join(tmp, "data.cdb")
	if _, err := cdbc.CreateCDB(in, out, nil); err != nil {
		t.Fatal(err)
	}
	th, err := NewFBDNSDBBasic(HandlerConfig{}, DBConfig{Path: out, Driver: "cdb"}, CacheConfig{Enabled: false}, &DummyLogger{}, &stats.DummyStats{})
	if err != nil {
		t.Fatal(err)
	}
	if err := th.Load(); err != nil {
		t.Fatal(err)
	}
	defer th.Close()
	req := new(dns.Msg)
	req.SetQuestion(".", dns.TypeDS)
	rec := dnstest.NewRecorder(&test.ResponseWriterCustomRemote{RemoteIP: "192.0.2.1"})
	func() {
		defer func() {
			if e := recover(); e != nil {
				t.Fatalf("handler panicked on 'DS .' against a root delegation: %v", e)
			}
		}()
		th.ServeDNSWithRCODE(context.Background(), rec, req)
	}()
	if rec.Msg == nil || rec.Msg.Id != req.Id || !rec.Msg.Response {
		t.Fatalf("no well-formed reply: %v", rec.Msg)
	}
	if rec.Msg.Authoritative {
		t.Fatalf("root is only delegated: reply must not be authoritative")
	}
}
