package dnsdata

// Replay for the known defect (fixed): the pseudo range point that resumes the IPv6 space after the IPv4-mapped
// block (start at 0:0:0:0:1::) was pushed on the location stack as if it opened a range, but it has no end
// point. Any IPv6 subnet that spans the block (::/1 .. ::/79) therefore lost its location above the block and
// its own end point popped the pseudo entry instead, leaving the subnet's location in force for every address
// after the subnet: with {::/8 -> ab}, 1::1 (inside) got no location and 300::1 (outside) got ab.
// Found by the bounded stand-in rearrange-lpm (property C03).

import (
	"bytes"
	"net"
	"testing"
)

func verifClosest(points RangePoints, ip net.IP) (loc []byte) {
	var key IPv6
	copy(key[:], ip.To16())
	var best *RangePoint
	for _, p := range points {
		if bytes.Compare(p.rangeStart[:], key[:]) <= 0 {
			best = p
		}
	}
	if best == nil || best.LocIsNull() {
		return nil
	}
	return best.LocID()
}

func TestVerifReplayC03SpanningV4Block(t *testing.T) {
	r := NewRearranger(2)
	var n Rnet
	if err := n.UnmarshalText([]byte("%ab,::/8,mm")); err != nil {
		t.Fatal(err)
	}
	if err := r.AddLocation(n.ipnet, n.lo); err != nil {
		t.Fatal(err)
	}
	pts := r.Rearrange()
	t.Logf("points:\n%s", pts.String())
	for _, tc := range []struct{ ip, want string }{{"::1", "ab"}, {"1::1", "ab"}, {"ff:ffff::", "ab"}, {"100::", ""}, {"300::1", ""}, {"::ffff:9.9.9.9", ""}} {
		got := string(verifClosest(pts, net.ParseIP(tc.ip)))
		if got != tc.want {
			t.Errorf("REPLAY-VIOLATED %s: location %q, longest-prefix match says %q", tc.ip, got, tc.want)
		}
	}
}
