package dnsserver

// Replay for the finding (C10): a query that carries a client-subnet option and is answered REFUSED (the name is
// below no zone this server has) gets an OPT record WITHOUT the client-subnet option. The REFUSED reply is composed
// without an OPT of its own, so coredns' Request.SizeAndDo re-uses the request's OPT after filtering it through
// supportedOptions(), which drops EDNS0_SUBNET. Every other composed reply (answers, NXDOMAIN, NODATA, referrals,
// cache hits) carries the option back. The property says: a client-subnet option exactly when the query had one.
// Reported as a side observation by a seed-writing sub-agent; confirmed here.

import (
	"os"
	"path"
	"testing"

	"github.com/coredns/coredns/plugin/pkg/dnstest"
	"github.com/miekg/dns"

	"github.com/facebookincubator/dns/dnsrocks/dnsdata/cdb"
	"github.com/facebookincubator/dns/dnsrocks/dnsserver/stats"
	"github.com/facebookincubator/dns/dnsrocks/dnsserver/test"
)

type rpDiscard struct{}

func (rpDiscard) Write(p []byte) (int, error) { return len(p), nil }

func TestVerifReplayC10RefusedDropsECS(t *testing.T) {
	dir := t.TempDir()
	in := path.Join(dir, "data.in")
	data := "%lA,10.1.0.0/16\nZexample.com,a.ns.example.com,dns.example.com,123,7200,1800,604800,120,120,,\n&example.com,,a.ns.example.com,172800,,\n+a.ns.example.com,5.5.5.5,172800,,\n+www.example.com,1.1.1.1,180,,\n"
	if err := os.WriteFile(in, []byte(data), 0o644); err != nil {
		t.Fatal(err)
	}
	cdbPath := path.Join(dir, "data.cdb")
	if _, err := cdb.CreateCDB(in, cdbPath, cdb.NewDefaultCreatorOptions()); err != nil {
		t.Fatal(err)
	}
	h, err := NewFBDNSDBBasic(HandlerConfig{}, DBConfig{Path: cdbPath, Driver: "cdb", ReloadInterval: 100}, CacheConfig{Enabled: false},
		&TextLogger{IoWriter: rpDiscard{}}, &stats.DummyStats{})
	if err != nil {
		t.Fatal(err)
	}
	if err := h.Load(); err != nil {
		t.Fatal(err)
	}
	defer h.Close()
	ask := func(name string) *dns.Msg {
		req := new(dns.Msg)
		req.SetQuestion(name, dns.TypeA)
		o, err := MakeOPTWithECS("10.1.2.0/24")
		if err != nil {
			t.Fatal(err)
		}
		req.Extra = append(req.Extra, o)
		rec := dnstest.NewRecorder(&test.ResponseWriterCustomRemote{RemoteIP: "1.2.3.4"})
		if _, err := h.ServeDNSWithRCODE(CreateTestContext(8), rec, req); err != nil || rec.Msg == nil {
			t.Fatalf("%s: %v", name, err)
		}
		return rec.Msg
	}
	hasECS := func(m *dns.Msg) (opt, ecs bool) {
		if o := m.IsEdns0(); o != nil {
			opt = true
			for _, x := range o.Option {
				if _, ok := x.(*dns.EDNS0_SUBNET); ok {
					ecs = true
				}
			}
		}
		return
	}
	for _, c := range []struct {
		name  string
		rcode int
	}{{"www.example.com.", dns.RcodeSuccess}, {"nx.example.com.", dns.RcodeNameError}, {"www.example.org.", dns.RcodeRefused}} {
		m := ask(c.name)
		opt, ecs := hasECS(m)
		if m.Rcode != c.rcode {
			t.Errorf("%s: rcode %d, want %d", c.name, m.Rcode, c.rcode)
		}
		if !opt || !ecs {
			t.Errorf("%s (rcode %s): query had OPT with a client-subnet option; reply has OPT=%v client-subnet=%v", c.name, dns.RcodeToString[m.Rcode], opt, ecs)
		}
	}
}
