package cdb

// Replay for the defect (C16, dump/rebuild clause): Dump read every 32-bit number of the file with a single
// bufio.Reader.Read call, which returns fewer than four bytes when the number straddles the end of the reader's
// 4096-byte buffer; the number was then assembled from stale bytes. A file whose record header crosses file offset
// 4096 (or any later multiple of the buffer size) could not be dumped (io.EOF / garbage records).
// Bounded stand-in: make-rebuild.

import (
	"bytes"
	"os"
	"path"
	"testing"
)

func TestVerifReplayC16DumpShortRead(t *testing.T) {
	file := path.Join(t.TempDir(), "d.cdb")
	w, err := NewWriter(file)
	if err != nil {
		t.Fatal(err)
	}
	// header 2048 bytes + one record of 8+6+2032 bytes: the next record's header starts at offset 4094
	big := bytes.Repeat([]byte{'v'}, 2032)
	if err := w.Put([]byte("first!"), big); err != nil {
		t.Fatal(err)
	}
	if err := w.Put([]byte("second"), []byte("value")); err != nil {
		t.Fatal(err)
	}
	if err := w.Close(); err != nil {
		t.Fatal(err)
	}
	f, err := os.Open(file)
	if err != nil {
		t.Fatal(err)
	}
	defer f.Close()
	var out bytes.Buffer
	err = Dump(&out, f)
	want := "+6,2032:first!->" + string(big) + "\n+6,5:second->value\n\n"
	if err != nil || out.String() != want {
		got := out.String()
		if len(got) > 60 {
			got = got[len(got)-60:]
		}
		t.Fatalf("Dump of a two-record file whose second header crosses offset 4096: err=%v, output ends %q", err, got)
	}
}
