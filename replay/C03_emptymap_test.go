package db

// Replay for the defect (C03; also C02/C04): a name bound (M line) to a map that has NO subnet lines. The RocksDB
// driver's GetLocationByMap asks for the closest key at or below <marker><map id><client address>; when the map has
// no range points at all that key belongs to ANOTHER map (the one sorting just before it) and the driver took its
// location without looking at the key's map id. The client is then put into a location of a subnet table it was
// never matched against -- it sees that location's records -- while the CDB driver finds no subnet and answers from
// the untagged records.
// Reported by a seed-writing sub-agent as a side observation; confirmed here.

import (
	"os"
	"path"
	"testing"

	"github.com/miekg/dns"

	"github.com/facebookincubator/dns/dnsrocks/dnsdata/cdb"
	"github.com/facebookincubator/dns/dnsrocks/dnsdata/rdb"
)

func TestVerifReplayC03EmptyMap(t *testing.T) {
	dir := t.TempDir()
	in := path.Join(dir, "data.in")
	// map m1 has one subnet that reaches the end of the address space (its last range point carries lC);
	// map m2 is referenced by www.example.com but has no subnets
	data := "%lA,10.1.0.0/16\n%lC,ff00::/8,m1\nMother.example.com,m1\nMwww.example.com,m2\nZexample.com,a.ns.example.com,dns.example.com,123,7200,1800,604800,120,120,,\n&example.com,,a.ns.example.com,172800,,\n+a.ns.example.com,5.5.5.5,172800,,\n+www.example.com,1.1.1.1,180,,\n+www.example.com,9.9.9.9,180,,lC\n"
	if err := os.WriteFile(in, []byte(data), 0o644); err != nil {
		t.Fatal(err)
	}
	cdbPath := path.Join(dir, "data.cdb")
	if _, err := cdb.CreateCDB(in, cdbPath, cdb.NewDefaultCreatorOptions()); err != nil {
		t.Fatal(err)
	}
	v1, v2 := path.Join(dir, "v1"), path.Join(dir, "v2")
	os.Mkdir(v1, 0o755)
	os.Mkdir(v2, 0o755)
	if _, err := rdb.CompileToSpecificRDBVersion(in, v1, rdb.CompilationOptions{}); err != nil {
		t.Fatal(err)
	}
	if _, err := rdb.CompileToSpecificRDBVersion(in, v2, rdb.CompilationOptions{UseV2KeySyntax: true}); err != nil {
		t.Fatal(err)
	}
	name := "www.example.com."
	q := make([]byte, 255)
	off, err := dns.PackDomainName(name, q, 0, nil, false)
	if err != nil {
		t.Fatal(err)
	}
	for _, b := range []struct{ p, drv string }{{cdbPath, "cdb"}, {v1, "rocksdb"}, {v2, "rocksdb"}} {
		d, err := Open(b.p, b.drv)
		if err != nil {
			t.Fatal(err)
		}
		r, err := NewReader(d)
		if err != nil {
			t.Fatal(err)
		}
		m := new(dns.Msg)
		m.SetQuestion(name, dns.TypeA)
		_, loc, err := r.FindLocation(q[:off], m, "1.2.3.4")
		if err != nil {
			t.Errorf("%s: FindLocation: %v", b.p, err)
		} else if loc != nil && (loc.LocID[0] != 0 || loc.LocID[1] != 0) {
			t.Errorf("%s: a client matched by no subnet of map m2 was put into location %q (mask %d)", path.Base(b.p), loc.LocID[:], loc.Mask)
		}
		r.Close()
		d.Destroy()
	}
}
