package fbserver

// Replay for the known finding (C10): the RFC 8482 front handler answers every ANY query with a synthesized HINFO
// built by Msg.SetReply alone. SetReply adds no OPT record, and nothing after it does (the reply is written by the
// front handler itself, not through the database handler's writeAndLog): a query WITH an OPT record -- and a
// client-subnet option -- gets a reply with neither. The property says: an OPT record exactly when the query had one.
// Reported as a side observation by a seed-writing sub-agent; confirmed here. Not repaired (what the OPT of a
// synthesized, untailored reply should say -- buffer size, DO bit, scope 0 -- is a design decision).

import (
	"context"
	"net"
	"testing"

	"github.com/coredns/coredns/plugin/pkg/dnstest"
	"github.com/coredns/coredns/plugin/test"
	"github.com/miekg/dns"
)

func TestVerifReplayC10AnyReplyHasNoOPT(t *testing.T) {
	ah, err := newAnyHandler()
	if err != nil {
		t.Fatal(err)
	}
	req := new(dns.Msg)
	req.SetQuestion("www.example.com.", dns.TypeANY)
	o := new(dns.OPT)
	o.Hdr.Name = "."
	o.Hdr.Rrtype = dns.TypeOPT
	o.SetUDPSize(1232)
	o.Option = append(o.Option, &dns.EDNS0_SUBNET{Code: dns.EDNS0SUBNET, Family: 1, SourceNetmask: 24, Address: net.ParseIP("10.1.2.0").To4()})
	req.Extra = append(req.Extra, o)
	rec := dnstest.NewRecorder(&test.ResponseWriter{})
	if _, err := ah.ServeDNS(context.Background(), rec, req); err != nil || rec.Msg == nil {
		t.Fatalf("ServeDNS: %v", err)
	}
	if rec.Msg.IsEdns0() == nil {
		t.Errorf("ANY query with an OPT record (and a client-subnet option): the reply has no OPT record (Extra: %v)", rec.Msg.Extra)
	}
}
