package dnsdata

// Replay for the known defect (fixed): AddLocation treated every subnet whose network address is :: (or
// 0.0.0.0) as the default route, whatever its length: ::/127 or 0.0.0.0/7 then matched the whole family.
// Obligation: dnsdata.Rearranger.AddLocation/post/[default6], [default4].

import (
	"bytes"
	"net"
	"testing"
)

func verifLookup(points RangePoints, ip net.IP) (loc []byte, null bool) {
	var key IPv6
	copy(key[:], ip.To16())
	var best *RangePoint
	for _, p := range points {
		if bytes.Compare(p.rangeStart[:], key[:]) <= 0 {
			best = p
		}
	}
	if best == nil || best.LocIsNull() {
		return nil, true
	}
	return best.LocID(), false
}

func TestVerifReplayC03DefaultRoute(t *testing.T) {
	for _, tc := range []struct{ cidr, inside, outside string }{
		{"::/127", "::1", "::2"},
		{"0.0.0.0/7", "1.2.3.4", "2.0.0.0"},
	} {
		r := NewRearranger(4)
		_, ipnet, err := net.ParseCIDR(tc.cidr)
		if err != nil {
			t.Fatal(err)
		}
		if err := r.AddLocation(ipnet, []byte{'a', 'b'}); err != nil {
			t.Fatal(err)
		}
		pts := r.Rearrange()
		if loc, null := verifLookup(pts, net.ParseIP(tc.inside)); null || !bytes.Equal(loc, []byte("ab")) {
			t.Errorf("%s: %s should map to ab, got %v null=%v", tc.cidr, tc.inside, loc, null)
		}
		if loc, null := verifLookup(pts, net.ParseIP(tc.outside)); !null {
			t.Errorf("%s: %s is outside the subnet but maps to %q", tc.cidr, tc.outside, loc)
		}
	}
}
