package rdb

// Replay for the known defect (fixed): RDB.get answered an exact lookup from a context-cache entry left by a
// closest-key search for the same probe key. That entry names a different (smaller) key and carries that key's
// records, so a key that does not exist appeared to hold its neighbour's values (v2-key readers: records of
// another location / duplicated records).
// Obligation: rdb.RDB.get/post/[exact] #1.

import (
	"bytes"
	"errors"
	"io"
	"os"
	"testing"
)

func TestVerifReplayC02ContextCacheExact(t *testing.T) {
	dir, err := os.MkdirTemp("", "verif_rdb")
	if err != nil {
		t.Fatal(err)
	}
	defer os.RemoveAll(dir)
	w, err := NewRDB(dir)
	if err != nil {
		t.Fatal(err)
	}
	if err := w.Add([]byte("key-a"), []byte("value of a")); err != nil {
		t.Fatal(err)
	}
	w.Close()
	r, err := NewReader(dir)
	if err != nil {
		t.Fatal(err)
	}
	defer r.Close()

	ctx := NewContext()
	probe := []byte("key-b") // does not exist; its closest smaller key is key-a
	k, _, err := r.FindClosest(probe, ctx)
	if err != nil || !bytes.Equal(k, []byte("key-a")) {
		t.Fatalf("closest key: %q %v", k, err)
	}
	v, err := r.Find(probe, ctx)
	t.Logf("Find(%q) after FindClosest(%q) in one context: value=%q err=%v", probe, probe, v, err)
	if !errors.Is(err, io.EOF) || v != nil {
		t.Errorf("REPLAY-VIOLATED the missing key %q returns %q, the value of its neighbour %q", probe, v, k)
	}
	n := 0
	_ = r.ForEach(probe, func(value []byte) error { n++; return nil }, ctx)
	if n != 0 {
		t.Errorf("REPLAY-VIOLATED ForEach over the missing key %q visited %d values", probe, n)
	}
	// control: a fresh context gives the right answer
	if v2, err2 := r.Find(probe, NewContext()); !errors.Is(err2, io.EOF) || v2 != nil {
		t.Errorf("control failed: %q %v", v2, err2)
	}
	// and the closest search keeps working after an exact miss in the same context
	ctx2 := NewContext()
	if v3, err3 := r.Find(probe, ctx2); !errors.Is(err3, io.EOF) || v3 != nil {
		t.Errorf("control failed: %q %v", v3, err3)
	}
	k2, d2, err := r.FindClosest(probe, ctx2)
	if err != nil || !bytes.Equal(k2, []byte("key-a")) || len(d2) == 0 {
		t.Errorf("REPLAY-VIOLATED FindClosest(%q) after an exact miss in one context returns key %q (data %d bytes), not the closest key %q", probe, k2, len(d2), "key-a")
	}
}
