package dnsdata

// Replay for the known defect (fixed): Rsoa.MarshalText left the serial out whenever it was 0, but an absent
// serial reads back as the codec's default serial (derived from the data file). A 'Z' line with the explicit
// serial 0 therefore re-serialised (e.g. by the preprocessor) to a line that compiles to a DIFFERENT SOA value.
// Obligation: dnsdata.Rsoa.MarshalText/post/[serial-faithful]; bounded stand-in text-roundtrip.

import (
	"bytes"
	"testing"
)

func TestVerifReplayC09SoaSerialZero(t *testing.T) {
	line := []byte("Zexample.com,ns1.example.net,hostmaster.example.com,0,,,,,,,")
	mk := func() *Codec {
		c := new(Codec)
		c.Serial = 12345 // what DeriveSerial gives for a real data file: never 0
		c.Acc.NoPrefixSets = true
		return c
	}
	r, err := mk().DecodeLn(line)
	if err != nil {
		t.Fatal(err)
	}
	m1, err := r.MarshalMap()
	if err != nil {
		t.Fatal(err)
	}
	text, err := r.MarshalText()
	if err != nil {
		t.Fatal(err)
	}
	r2, err := mk().DecodeLn(text)
	if err != nil {
		t.Fatal(err)
	}
	m2, err := r2.MarshalMap()
	if err != nil {
		t.Fatal(err)
	}
	t.Logf("line %q -> normal form %q", line, text)
	if len(m1) != len(m2) || !bytes.Equal(m1[0].Key, m2[0].Key) || !bytes.Equal(m1[0].Value, m2[0].Value) {
		t.Errorf("REPLAY-VIOLATED the normal form compiles to a different value:\n  original:    %q\n  normal form: %q", m1[0].Value, m2[0].Value)
	}
}
