package db

// Replay for the known defect (fixed): with the combined prefix-length set the CDB driver probed every
// recorded length for every client, so an IPv4 client was matched against IPv6 subnets shorter than /96
// (::/0, ::/8, ...): it received their location (C03: "longest declared subnet of the same address family"),
// and the scope returned to an IPv4 ECS client wrapped around (8 - 96 = 168 as uint8; C10: never above 32).
// RocksDB answered "no location" for the same data (C02).
// Obligation: db.cdbdriver.GetLocationByMap/post/[family] #2.

import (
	"net"
	"os"
	"path"
	"testing"

	"github.com/miekg/dns"

	"github.com/facebookincubator/dns/dnsrocks/dnsdata/cdb"
)

const verifC03V4InV6Data = `%lA,::/8,ec
%lB,2001:db8::/32,ec
8www.example.com,ec
Zexample.com,a.ns.example.com,dns.example.com,123,7200,1800,604800,120,120,,
&example.com,,a.ns.example.com,172800,,
+a.ns.example.com,5.5.5.5,172800,,
+www.example.com,1.1.1.1,180,,
+www.example.com,1.1.1.2,180,,lA
`

func TestVerifReplayC03V4ClientInV6Subnet(t *testing.T) {
	dir := t.TempDir()
	in := path.Join(dir, "data.in")
	if err := os.WriteFile(in, []byte(verifC03V4InV6Data), 0o644); err != nil {
		t.Fatal(err)
	}
	cdbPath := path.Join(dir, "data.cdb")
	if _, err := cdb.CreateCDB(in, cdbPath, cdb.NewDefaultCreatorOptions()); err != nil {
		t.Fatal(err)
	}
	d, err := Open(cdbPath, "cdb")
	if err != nil {
		t.Fatal(err)
	}
	r, err := NewReader(d)
	if err != nil {
		t.Fatal(err)
	}
	defer r.Close()
	packed := make([]byte, 255)
	off, _ := dns.PackDomainName("www.example.com.", packed, 0, nil, false)
	ecs := &dns.EDNS0_SUBNET{Code: dns.EDNS0SUBNET, Family: 1, SourceNetmask: 24, Address: net.ParseIP("9.9.9.0").To4()}
	loc, err := r.EcsLocation(packed[:off], ecs)
	if err != nil {
		t.Fatal(err)
	}
	t.Logf("IPv4 client 9.9.9.0/24 against {::/8 -> lA, 2001:db8::/32 -> lB}: loc=%+v scope=%d", loc, ecs.SourceScope)
	if loc != nil {
		t.Errorf("REPLAY-VIOLATED an IPv4 client was given the location %q of an IPv6 subnet (/%d)", loc.LocID[:], loc.Mask)
	}
	if ecs.SourceScope > 32 {
		t.Errorf("REPLAY-VIOLATED scope %d returned to an IPv4 client-subnet option", ecs.SourceScope)
	}
	// control: an IPv6 client inside ::/8 does get lA
	ecs6 := &dns.EDNS0_SUBNET{Code: dns.EDNS0SUBNET, Family: 2, SourceNetmask: 64, Address: net.ParseIP("1::")}
	loc6, err := r.EcsLocation(packed[:off], ecs6)
	if err != nil || loc6 == nil || string(loc6.LocID[:]) != "lA" || ecs6.SourceScope != 8 {
		t.Errorf("control failed: loc=%+v scope=%d err=%v", loc6, ecs6.SourceScope, err)
	}
}
