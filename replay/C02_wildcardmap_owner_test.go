package db

// Replay for the defect (C02; also the panic clause of C13): with RocksDB v2 keys, looking up the map of a name
// that owns a WILDCARD map ("M*.c.example.com,m1") but no exact one made the closest-key walk
// (rdbdriver.findMapInSortedData) land on that wildcard key while searching for the exact key; the "common prefix"
// was then the whole name and the search key was re-sliced one byte past its capacity: a run-time panic, recovered
// in FindLocation, and the query was answered SERVFAIL -- while CDB and RocksDB v1 answer it normally (a wildcard
// map does not apply to its owner name; the parent's maps do).
// Found by: bounded stand-in backends-agree, query c.example.com.

import (
	"os"
	"path"
	"testing"

	"github.com/miekg/dns"

	"github.com/facebookincubator/dns/dnsrocks/dnsdata/rdb"
)

func TestVerifReplayC02WildcardMapOwner(t *testing.T) {
	dir := t.TempDir()
	in := path.Join(dir, "data.in")
	data := "%lA,10.1.0.0/16\nM*.c.example.com,m1\n%lC,10.3.0.0/16,m1\nZexample.com,a.ns.example.com,dns.example.com,123,7200,1800,604800,120,120,,\n&example.com,,a.ns.example.com,172800,,\n+a.ns.example.com,5.5.5.5,172800,,\n+a.b.c.example.com,3.3.3.3,180,,\n"
	if err := os.WriteFile(in, []byte(data), 0o644); err != nil {
		t.Fatal(err)
	}
	v2 := path.Join(dir, "v2")
	os.Mkdir(v2, 0o755)
	if _, err := rdb.CompileToSpecificRDBVersion(in, v2, rdb.CompilationOptions{UseV2KeySyntax: true}); err != nil {
		t.Fatal(err)
	}
	d, err := Open(v2, "rocksdb")
	if err != nil {
		t.Fatal(err)
	}
	defer d.Destroy()
	r, err := NewReader(d)
	if err != nil {
		t.Fatal(err)
	}
	defer r.Close()
	for _, name := range []string{"a.b.c.example.com.", "c.example.com.", "example.com."} {
		q := make([]byte, 255)
		off, err := dns.PackDomainName(name, q, 0, nil, false)
		if err != nil {
			t.Fatal(err)
		}
		m := new(dns.Msg)
		m.SetQuestion(name, dns.TypeA)
		if _, _, err := r.FindLocation(q[:off], m, "10.3.0.1"); err != nil {
			t.Errorf("FindLocation(%s) on RocksDB v2 keys: %v", name, err)
		}
	}
}
