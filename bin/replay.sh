#!/bin/bash
# usage: replay.sh <pkgdir-relative-to-/repo> <testfile-under-/verif/replay> <run-regexp> [extra go test args]
# Runs an in-package replay test against the real code through -overlay (nothing is written to /repo).
export GOFLAGS=-mod=mod GOPROXY=off GOSUMDB=off GOTOOLCHAIN=local
pkg="$1"; tf="$2"; run="$3"; shift 3
mkdir -p /verif/out/overlay /verif/out/gomod
mod=/repo/$pkg; while [ ! -f $mod/go.mod ]; do mod=$(dirname $mod); done
key=$(echo $mod | tr '/' '_')
mkdir -p /verif/out/gomod/$key; cp $mod/go.mod $mod/go.sum /verif/out/gomod/$key/
ov=/verif/out/overlay/replay_$$.json
echo "{\"Replace\": {\"/repo/$pkg/zz_verif_replay_test.go\": \"/verif/replay/$tf\"}}" > $ov
(cd /repo/$pkg && go test -modfile=/verif/out/gomod/$key/go.mod -overlay $ov -vet=off -count=1 -timeout 120s -ldflags=-checklinkname=0 -run "$run" "$@" . 2>&1 | tail -15)
rc=${PIPESTATUS[0]}
rm -f $ov /tmp/*.test.* 2>/dev/null
exit $rc
