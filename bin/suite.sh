#!/bin/bash
# usage: suite.sh  — runs the pinned test suite on a scratch worktree of /repo HEAD (build tag off) and compares with the baseline
export GOFLAGS=-mod=mod GOPROXY=off GOSUMDB=off GOTOOLCHAIN=local
wt=/tmp/suite-wt; out=/tmp/suite-wt.json
git -C /repo worktree remove --force $wt >/dev/null 2>&1
git -C /repo worktree add -q --detach $wt HEAD || exit 2
: > $out
for m in dnsrocks dnsrocks/go-cdb-mods; do (cd $wt/$m && go test -json -vet=off -count=1 -timeout 25m ./... 2>/dev/null) >> $out; done
python3 - "$out" <<'PY'
import json,sys
base=set(json.load(open('/root/.vp/BASELINE.json'))['stable_pass'])
passed=set(); failed=set()
for l in open(sys.argv[1]):
    try: e=json.loads(l)
    except: continue
    if e.get('Test'):
        if e.get('Action')=='pass': passed.add(e['Package']+'::'+e['Test'])
        if e.get('Action')=='fail': failed.add(e['Package']+'::'+e['Test'])
missing=sorted(base-passed)
print('SUITE pass=%d baseline=%d missing=%d failed=%d'%(len(passed&base),len(base),len(missing),len(failed)))
for m in missing[:20]: print('  MISSING',m)
sys.exit(1 if missing else 0)
PY
rc=$?
git -C /repo worktree remove --force $wt; rm -f $out /tmp/*.test.* 2>/dev/null
exit $rc
