#!/bin/bash
# usage: confirm_seed.sh <name> <property> <srcdir-with-patch.diff,demo_test.go,meta.json>
# Confirms a seeded change in a scratch worktree: applies cleanly, builds, pinned suite still passes,
# demo fails with the patch and passes without. Stores it under /verif/seeded/<name>/.
set -u
export GOFLAGS=-mod=mod GOPROXY=off GOSUMDB=off GOTOOLCHAIN=local
name="$1"; prop="$2"; src="$3"
wt=/tmp/confirm-$name
log=/tmp/confirm-$name.log
: > $log
git -C /repo worktree remove --force $wt >/dev/null 2>&1
git -C /repo worktree add -q --detach $wt HEAD || exit 2
demo_dir=$(python3 -c "import json;print(json.load(open('$src/meta.json')).get('demo_package_dir',''))")
demo_dir=${demo_dir#/}; demo_dir=${demo_dir%/}
[ -d "$wt/$demo_dir" ] || demo_dir=$(head -5 $src/demo_test.go | grep -o 'place in: [^ ]*' | cut -d' ' -f3)
run_demo() {
  cp $src/demo_test.go $wt/$demo_dir/zz_seed_demo_test.go
  (cd $wt/$demo_dir && timeout 900 go test -vet=off -count=1 -ldflags=-checklinkname=0 -run 'Demo|C[0-9][0-9]' . ) >> $log 2>&1
  rc=$?
  rm -f $wt/$demo_dir/zz_seed_demo_test.go
  return $rc
}
suite() {
  out=$1
  : > $out
  for m in dnsrocks dnsrocks/go-cdb-mods; do (cd $wt/$m && go test -json -vet=off -count=1 -timeout 25m ./... 2>/dev/null) >> $out; done
  python3 - "$out" <<'PY'
import json,sys
base=set(json.load(open('/root/.vp/BASELINE.json'))['stable_pass'])
passed=set()
for l in open(sys.argv[1]):
    try: e=json.loads(l)
    except: continue
    if e.get('Action')=='pass' and e.get('Test'):
        passed.add(e['Package']+'::'+e['Test'])
missing=sorted(base-passed)
print('SUITE pass=%d baseline=%d missing=%d'%(len(passed&base),len(base),len(missing)))
for m in missing[:10]: print('  MISSING',m)
sys.exit(1 if missing else 0)
PY
}
echo "== clean demo" >> $log
run_demo; clean_rc=$?
echo "== apply" >> $log
git -C $wt apply $src/patch.diff >> $log 2>&1 || { echo "RESULT $name apply-failed"; exit 1; }
(cd $wt/dnsrocks && go build ./... ) >> $log 2>&1; build_rc=$?
# cmd binaries do not link without checklinkname on the pinned tree either; use vet-less test compile as build check
echo "== patched demo" >> $log
run_demo; patched_rc=$?
echo "== suite (patched)" >> $log
suite /tmp/confirm-$name.json >> $log 2>&1; suite_rc=$?
git -C $wt checkout -- . ; rm -f /tmp/confirm-$name.json
git -C /repo worktree remove --force $wt
rm -f /tmp/*.test.* 2>/dev/null
ok=no
if [ $clean_rc -eq 0 ] && [ $patched_rc -ne 0 ] && [ $suite_rc -eq 0 ]; then ok=yes; fi
echo "RESULT $name prop=$prop clean_demo_rc=$clean_rc patched_demo_rc=$patched_rc suite_rc=$suite_rc confirmed=$ok"
if [ $ok = yes ]; then
  d=/verif/seeded/$name; mkdir -p $d
  cp $src/patch.diff $d/patch.diff; cp $src/demo_test.go $d/demo_test.go
  python3 - "$src/meta.json" "$d/meta.json" "$prop" "$demo_dir" <<'PY'
import json,sys
m=json.load(open(sys.argv[1]))
out={"property":sys.argv[3],"summary":m.get("summary",""),"files_changed":m.get("files_changed",[]),
 "needs_to_manifest":m.get("needs_to_manifest",""),"demo_package_dir":sys.argv[4],
 "origin":"independent sub-agent given only the property text and a scratch worktree",
 "confirmed_by":"bin/confirm_seed.sh in a fresh scratch worktree of /repo HEAD: demo passes on the clean tree, fails with the patch; pinned suite (go test -vet=off ./... in both modules) keeps all 365 baseline tests passing with the patch",
 "demo_run_cmd":"cd <worktree>/%s && go test -vet=off -count=1 -ldflags=-checklinkname=0 -run 'Demo|C[0-9][0-9]' ."%sys.argv[4]}
json.dump(out,open(sys.argv[2],'w'),indent=1)
PY
fi
