#!/bin/bash
# Self-test of the machinery (run after every engine or contract change):
#   must-fail: every seeded change, and every repaired defect re-introduced (the reverse of its fix: commit), must be
#              reported as a VIOLATION of its property;
#   must-pass: every harmless edit under $V/selftest/harmless must leave its property's check clean.
# Usage: selftest.sh [seeds|reverts|harmless|all]   (default: reverts harmless)
V="${VERIF_HOME:-/verif}"; R="${VERIF_REPO:-/repo}"
cd "$V"
mkdir -p "$V/out"
what="${*:-reverts harmless}"
[ "$what" = all ] && what="seeds reverts harmless"
fail=0
if [ -n "$(git -C "$R" status --porcelain)" ]; then echo "REFUSED: /repo has uncommitted changes"; exit 2; fi
run() { # name prop patchfile expect(violation|clean)
  git -C "$R" apply "$3" || { echo "APPLY-FAILED $1"; fail=1; return; }
  out=$(bin/check $2 -no-evidence 2>&1); rc=$?
  git -C "$R" checkout -- .
  n=$(echo "$out" | grep -c '^VIOLATION')
  if [ "$4" = violation ]; then
    if [ $rc -eq 1 ] && [ $n -gt 0 ]; then echo "ok   must-fail $1 ($2): $(echo "$out" | grep '^VIOLATION' | head -1 | sed 's/.*\(obligation\|bounded\)=//' | cut -c1-90)"; else echo "FAIL must-fail $1 ($2): not reported (rc=$rc)"; fail=1; fi
  else
    if [ $rc -eq 0 ] && [ $n -eq 0 ]; then echo "ok   must-pass $1 ($2)"; else echo "FAIL must-pass $1 ($2): rc=$rc $(echo "$out" | grep -E '^(VIOLATION|ENGINE)' | head -2 | cut -c1-200)"; fail=1; fi
  fi
}
for w in $what; do case $w in
seeds)
  for d in seeded/[A-Z]*/; do s=$(basename $d); p=$(python3 -c "import json;print(json.load(open('$d/meta.json'))['property'])"); run $s $p $V/$d/patch.diff violation; done;;
reverts)
  while read -r _ prop hash rest; do
    p=${prop#property=}; tmp=$V/out/revert-$hash.diff
    git -C "$R" diff $hash $hash^ > $tmp
    run revert-$hash $p $tmp violation
  done < <(grep '^fixed:' known_findings.txt);;
harmless)
  for f in $V/selftest/harmless/*.diff; do n=$(basename $f .diff); p=$(head -1 $V/selftest/harmless/$n.txt); run $n $p $f clean; done;;
esac; done
exit $fail
