#!/bin/bash
# usage: seedtest.sh <seed-name> <prop> [<prop>...]  — applies /verif/seeded/<seed>/patch.diff to /repo, runs checks, reverts
seed="$1"; shift
cd /repo || exit 2
if [ -n "$(git status --porcelain)" ]; then echo "REFUSED: /repo has uncommitted changes (seedtest reverts the working tree)"; exit 2; fi
git apply /verif/seeded/$seed/patch.diff || { echo "APPLY-FAILED $seed"; exit 2; }
for p in "$@"; do
  out=$(cd /verif && bin/check $p -no-evidence 2>&1); rc=$?
  echo "== seed=$seed prop=$p exit=$rc"
  echo "$out" | grep -E "^(VIOLATION|UNDECIDED|ENGINE-FAULT|KNOWN|DEGRADED|C[0-9]+:)" | cut -c1-260
done
git -C /repo checkout -- . 
