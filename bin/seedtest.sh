#!/bin/bash
# usage: seedtest.sh <seed-name> <prop> [<prop>...]  — applies $V/seeded/<seed>/patch.diff to /repo, runs checks, reverts
seed="$1"; shift
V="${VERIF_HOME:-/verif}"; R="${VERIF_REPO:-/repo}"
cd "$R" || exit 2
if [ -n "$(git status --porcelain)" ]; then echo "REFUSED: /repo has uncommitted changes (seedtest reverts the working tree)"; exit 2; fi
git apply $V/seeded/$seed/patch.diff || { echo "APPLY-FAILED $seed"; exit 2; }
for p in "$@"; do
  out=$(cd "$V" && bin/check $p -no-evidence 2>&1); rc=$?
  echo "== seed=$seed prop=$p exit=$rc"
  echo "$out" | grep -E "^(VIOLATION|UNDECIDED|ENGINE-FAULT|KNOWN|DEGRADED|C[0-9]+:)" | cut -c1-260
done
git -C "$R" checkout -- . 
