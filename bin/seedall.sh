#!/bin/bash
# runs every seeded change against the check(s) of its property (and declared extra properties); prints one line per seed
V="${VERIF_HOME:-/verif}"; R="${VERIF_REPO:-/repo}"
cd "$V"
for d in seeded/[A-Z]*/; do
  s=$(basename $d); p=$(python3 -c "import json;print(json.load(open('$d/meta.json'))['property'])")
  extra=$(python3 -c "import json;print(' '.join(json.load(open('$d/meta.json')).get('also_checked_by',[])))")
  out=$(bin/seedtest.sh $s $p $extra 2>&1)
  n=$(echo "$out" | grep -c '^VIOLATION')
  first=$(echo "$out" | grep '^VIOLATION' | sed 's/.*obligation=//' | cut -c1-110 | sort -u | head -3 | tr '\n' ';')
  if [ "$n" -gt 0 ]; then echo "CAUGHT $s ($p $extra) n=$n $first"; else echo "MISSED $s ($p $extra)"; echo "$out" | tail -5; fi
done
