#!/usr/bin/env python3
# Regenerates MANIFEST.json checks from props/*.json and the table below.
import json,glob,os
M=json.load(open('/verif/MANIFEST.json'))
texts={
"C01":("proof","rcode/authority decisions of the query handler proved at every reply site (REFUSED iff no NS and no SOA; AA flag iff authoritative; NXDOMAIN only when authoritative with no answer), over the assumed Reader interface contracts; further links of the chain (encoders, walks) are added as they come under contract"),
"C10":("proof","OPT present iff the query had one, ECS option attached iff FindLocation returned one and it is the request's own option object, on both the cache-hit and the miss path; scope arithmetic of EcsLocation under contract"),
"C12":("proof","cache stores the answer before OPT/ECS are attached; the hit path re-applies SetReply and attaches OPT/ECS by the same rule as the miss path (sequential reading; schedules not explored)"),
"C13":("proof","every index, slice, nil dereference, type assertion and callee precondition of the query handler is an obligation; reply shape (Id, QR) at every reply site; DS-at-root precondition"),
"C15":("proof","chunk codec and multi-value operations of dnsdata/rdb under functional contracts (delValue removes exactly the first equal chunk or fails without effect; Add/Del issue one read and at most one write; batches copy their arguments)"),
"C16":("proof","record layout and table bookkeeping of writer.Put; probe discipline of Cdb.find (EOF only at an empty cell or after all cells; hit reports matching hash and key length)"),
"C14":("other","lock-discipline proof for the named critical sections only (ghost lock state: no Lock while held, every path releases what it acquired, the named read-modify-write operations run under the lock); goroutine schedules, deadlock and crash freedom are NOT claimed"),
"C19":("proof","one tick of the sliding-window cleaner drops exactly the expired prefix and keeps live samples unchanged; writeAndLog logs and counts exactly what was written, once, after the write; DNS_queries +1 on every handler path"),
}
checks=[]
served=[]
for f in sorted(glob.glob('/verif/props/C*.json')):
    c=json.load(open(f)); pid=c['id']
    cat,txt=texts.get(pid,("proof","contract-based deductive verification of the functions listed in props/%s.json"%pid))
    if c.get('level'):
        cat=c['level']
    if not c.get('units') and c.get('bounded'):
        cat="other"
    served.append(pid)
    checks.append({"property_id":pid,"quick_cmd":"bin/check %s --tier quick"%pid,"thorough_cmd":"bin/check %s --tier thorough"%pid,
      "evidence_file":"/verif/evidence/%s.json"%pid,"engine":"govc","replay_cmd_template":"cat {path}",
      "level_claimed":{"category":cat,"text":txt,"design_ref":"DESIGN.md section 6.%s"%pid},
      "level_note":"trusted: SMT solvers (z3 4.8.12, z3 5.1.0, cvc5 1.0.3), the govc VC generator, assumed contracts of dependencies and interfaces listed in the evidence trusted_base; undecided clauses listed in evidence coverage.undecided_clauses; bounded stand-ins (if any) are labelled bounded and not counted as proved",
      "technique":"contract-based deductive verification (self-built WP/VC generator over go/ast+go/types, contracts in //@ sidecar files, SMT back ends raced per obligation)"})
M['checks']=checks
M['engines'][0]['serves_properties']=served
na=json.load(open('/verif/not_applicable.json')) if os.path.exists('/verif/not_applicable.json') else []
M['not_applicable']=[x for x in na if x['property_id'] not in served]
M['hooks']['source_commits']=[l.split()[0] for l in os.popen("git -C /repo log --format='%h %s' | grep 'verif hook'").read().strip().split('\n') if l]
json.dump(M,open('/verif/MANIFEST.json','w'),indent=1)
print(len(checks),'checks;',len(M['not_applicable']),'n/a')
