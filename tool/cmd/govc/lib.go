package main

// Hard-coded assumed contracts of library functions (DESIGN section 5). Every use is recorded
// in the evidence as an assumption.

import (
	"fmt"
	"hash/fnv"
	"strconv"
	"go/ast"
	"go/types"
	"strings"

	"golang.org/x/tools/go/packages"
)

type pkgT = packages.Package

func (fv *FuncVerifier) assumedLib(name string) {
	fv.note("assumed library contract: " + name)
}

func (fv *FuncVerifier) byteAt(st *State, s Val, i string) string {
	h := fv.eng.sc.sliceHeap(types.Typ[types.Uint8])
	return "(select (select " + fv.heapOf(st, h) + " " + sRef(s.T) + ") " + plus(sOff(s.T), i) + ")"
}

func (fv *FuncVerifier) bytesEqualTerm(st *State, a, b Val) string {
	q := fv.qname()
	return "(and (= " + sLen(a.T) + " " + sLen(b.T) + ") (forall ((" + q + " Int)) (=> (and (<= 0 " + q + ") (< " + q + " " + sLen(a.T) + ")) (= " + fv.byteAt(st, a, q) + " " + fv.byteAt(st, b, q) + "))))"
}

// libModel returns ok=false when no model exists for the callee.
func (fv *FuncVerifier) libModel(st *State, full string, fn *types.Func, recv *Val, e *ast.CallExpr) ([]Val, bool) {
	t := fv.typeOf(e)
	text := fv.exprText(e)
	args := func() []Val {
		var out []Val
		for _, a := range e.Args {
			out = append(out, fv.eval(st, a))
		}
		return out
	}
	boolT := types.Typ[types.Bool]
	switch full {
	case "bytes.Equal":
		a := args()
		fv.assumedLib(full)
		r := fv.fresh("beq", "Bool")
		fv.assume(st, "(= "+r+" "+fv.bytesEqualTerm(st, a[0], a[1])+")")
		if fv.contract != nil && fv.contract.Flags["rank"] != "" {
			// the byte order is an order embedding of slice contents: equal contents <=> equal rank
			fv.assume(st, "(= "+r+" (= "+fv.rankTerm(st, a[0])+" "+fv.rankTerm(st, a[1])+"))")
		}
		return []Val{{T: r, Ty: boolT}}, true
	case "bytes.Compare":
		a := args()
		fv.assumedLib(full + " (lexicographic three-way comparison: decided by the total order rank.le on the ranks of the contents; 0 iff equal)")
		r := fv.fresh("bcmp", "Int")
		ra, rb := fv.rankTerm(st, a[0]), fv.rankTerm(st, a[1])
		fv.assume(st, "(= "+r+" (ite (not (rank.le "+rb+" "+ra+")) (- 1) (ite (not (rank.le "+ra+" "+rb+")) 1 0)))")
		fv.assume(st, "(= (= "+r+" 0) "+fv.bytesEqualTerm(st, a[0], a[1])+")")
		return []Val{{T: r, Ty: t}}, true
	case "bytes.HasPrefix":
		a := args()
		fv.assumedLib(full)
		q := fv.qname()
		r := fv.fresh("hasprefix", "Bool")
		fv.assume(st, "(= "+r+" (and (<= "+sLen(a[1].T)+" "+sLen(a[0].T)+") (forall (("+q+" Int)) (=> (and (<= 0 "+q+") (< "+q+" "+sLen(a[1].T)+")) (= "+fv.byteAt(st, a[0], q)+" "+fv.byteAt(st, a[1], q)+")))))")
		return []Val{{T: r, Ty: boolT}}, true
	case "(encoding/binary.littleEndian).Uint32", "(encoding/binary.bigEndian).Uint32",
		"(encoding/binary.littleEndian).Uint16", "(encoding/binary.bigEndian).Uint16",
		"(encoding/binary.littleEndian).Uint64", "(encoding/binary.bigEndian).Uint64":
		a := args()
		fv.assumedLib("encoding/binary fixed-width decoders")
		n := 4
		if strings.HasSuffix(full, "16") {
			n = 2
		} else if strings.HasSuffix(full, "64") {
			n = 8
		}
		fv.oblige(st, "bounds", text, "(>= "+sLen(a[0].T)+" "+itoa(n)+")")
		little := strings.Contains(full, "littleEndian")
		v := "0"
		for i := 0; i < n; i++ {
			k := i
			if !little {
				k = n - 1 - i
			}
			b := fv.byteAt(st, a[0], itoa(i))
			fv.assumeGlobal("(and (<= 0 " + b + ") (< " + b + " 256))")
			if k == 0 {
				v = plus(v, b)
			} else {
				v = "(+ " + v + " (* " + pow2big(8*k) + " " + b + "))"
			}
		}
		return []Val{{T: v, Ty: t}}, true
	case "(encoding/binary.littleEndian).PutUint32", "(encoding/binary.bigEndian).PutUint32",
		"(encoding/binary.littleEndian).PutUint16", "(encoding/binary.bigEndian).PutUint16",
		"(encoding/binary.littleEndian).PutUint64", "(encoding/binary.bigEndian).PutUint64":
		a := args()
		fv.assumedLib("encoding/binary fixed-width encoders")
		n := 4
		if strings.HasSuffix(full, "16") {
			n = 2
		} else if strings.HasSuffix(full, "64") {
			n = 8
		}
		fv.oblige(st, "bounds", text, "(>= "+sLen(a[0].T)+" "+itoa(n)+")")
		little := strings.Contains(full, "littleEndian")
		val := fv.nameTerm(st, a[1].T, "Int")
		// bytes characterised linearly: val = sum b_k * 256^k with 0 <= b_k < 256 (unique decomposition)
		bs := make([]string, n)
		sum := "0"
		for k := 0; k < n; k++ {
			bs[k] = fv.fresh("byte", "Int")
			fv.assumeGlobal("(and (<= 0 " + bs[k] + ") (< " + bs[k] + " 256))")
			if k == 0 {
				sum = bs[k]
			} else {
				sum = "(+ " + sum + " (* " + pow2big(8*k) + " " + bs[k] + "))"
			}
		}
		fv.assume(st, "(= "+val+" "+sum+")")
		for i := 0; i < n; i++ {
			k := i
			if !little {
				k = n - 1 - i
			}
			fv.writeElem(st, a[0], types.Typ[types.Uint8], itoa(i), bs[k], text)
		}
		fv.nameHeap(st, fv.eng.sc.sliceHeap(types.Typ[types.Uint8]))
		return nil, true
	case "time.Now":
		fv.assumedLib("time: instants are integers on a non-decreasing clock")
		fv.eng.needTime()
		tv := fv.havocVal(st, "now", t)
		prev := "0"
		if v, ok := st.ghost["$clock"]; ok {
			prev = v.T
		}
		fv.assume(st, "(>= (time.inst "+tv.T+") "+prev+")")
		st.ghost["$clock"] = Val{T: "(time.inst " + tv.T + ")", Sort: "Int"}
		return []Val{tv}, true
	case "(time.Time).Before", "(time.Time).After":
		a := args()
		fv.eng.needTime()
		if full == "(time.Time).Before" {
			return []Val{{T: "(< (time.inst " + recv.T + ") (time.inst " + a[0].T + "))", Ty: boolT}}, true
		}
		return []Val{{T: "(> (time.inst " + recv.T + ") (time.inst " + a[0].T + "))", Ty: boolT}}, true
	case "(time.Time).Add":
		a := args()
		fv.eng.needTime()
		tv := fv.havocVal(st, "tadd", t)
		fv.assume(st, "(= (time.inst "+tv.T+") (+ (time.inst "+recv.T+") "+a[0].T+"))")
		return []Val{tv}, true
	case "encoding/binary.Write":
		// token model: binary.Write(w, binary.BigEndian, x) with x of static type uint16 / uint32 appends a fixed-width
		// big-endian number token (kinds 11 / 12); only when the token ghosts exist
		if _, ok := st.ghost["ntok"]; ok && len(e.Args) == 3 {
			ord := strings.ReplaceAll(fv.exprText(e.Args[1]), " ", "")
			at := fv.typeOf(e.Args[2])
			if ord == "binary.BigEndian" && at != nil && isInteger(at) {
				if w, signed := intWidth(at); !signed && (w == 16 || w == 32) {
					a := args()
					fv.assumedLib("binary.Write(w, binary.BigEndian, x) for a uint16/uint32 x appends its 2/4 big-endian bytes (token BE16/BE32)")
					n := st.ghost["ntok"].T
					kind := "11"
					if w == 32 {
						kind = "12"
					}
					st.ghost["tokK"] = Val{T: "(store " + st.ghost["tokK"].T + " " + n + " " + kind + ")", Sort: "(Array Int Int)"}
					st.ghost["tokN"] = Val{T: "(store " + st.ghost["tokN"].T + " " + n + " " + a[2].T + ")", Sort: "(Array Int Int)"}
					st.ghost["ntok"] = Val{T: "(+ " + n + " 1)", Sort: "Int"}
					var out []Val
					for _, rt := range resultTypes(fn.Type().(*types.Signature)) {
						out = append(out, fv.havocVal(st, "bw", rt))
					}
					return out, true
				}
			}
		}
		return nil, false
	case "fmt.Fprint":
		// token model: Fprint(w, x) with one integer argument appends a Num token
		if _, ok := st.ghost["ntok"]; ok && len(e.Args) == 2 {
			if at := fv.typeOf(e.Args[1]); at != nil && isInteger(at) && !hasFormattingMethod(at) {
				a := args()
				fv.assumedLib("fmt.Fprint(w, x) for an integer x without String/Error/Format method writes its decimal form (token Num)")
				n := st.ghost["ntok"].T
				st.ghost["tokK"] = Val{T: "(store " + st.ghost["tokK"].T + " " + n + " 3)", Sort: "(Array Int Int)"}
				st.ghost["tokN"] = Val{T: "(store " + st.ghost["tokN"].T + " " + n + " " + a[1].T + ")", Sort: "(Array Int Int)"}
				st.ghost["ntok"] = Val{T: "(+ " + n + " 1)", Sort: "Int"}
				var out []Val
				for _, rt := range resultTypes(fn.Type().(*types.Signature)) {
					out = append(out, fv.havocVal(st, "fpr", rt))
				}
				return out, true
			}
		}
		return nil, false
	case "fmt.Fprintf":
		// text codec token model: Fprintf(w, "%d", x) appends a Num token (only when the token ghosts exist)
		if _, ok := st.ghost["ntok"]; ok && len(e.Args) == 3 {
			if tv, ok := fv.info().Types[e.Args[1]]; ok && tv.Value != nil && tv.Value.String() == `"%d"` && !hasMethod(fv.typeOf(e.Args[2]), "Format") {
				a := args()
				fv.assumedLib("fmt.Fprintf(w, \"%d\", x) writes the decimal form of x (token Num)")
				n := st.ghost["ntok"].T
				st.ghost["tokK"] = Val{T: "(store " + st.ghost["tokK"].T + " " + n + " 3)", Sort: "(Array Int Int)"}
				st.ghost["tokN"] = Val{T: "(store " + st.ghost["tokN"].T + " " + n + " " + a[2].T + ")", Sort: "(Array Int Int)"}
				st.ghost["ntok"] = Val{T: "(+ " + n + " 1)", Sort: "Int"}
				var out []Val
				for _, rt := range resultTypes(fn.Type().(*types.Signature)) {
					out = append(out, fv.havocVal(st, "fpr", rt))
				}
				return out, true
			}
		}
		return nil, false
	case "fmt.Sprintf":
		// constant formats made of literals, %.Nd / %d over unsigned integers (or fixed arrays of them) and %s:
		// the result is an uninterpreted function of the arguments; when every numeric field has a fixed width
		// and there is at most one %s the format is self-delimiting and the function is injective
		if len(e.Args) >= 1 {
			if tv, ok := fv.info().Types[e.Args[0]]; ok && tv.Value != nil {
				format, err := strconv.Unquote(tv.Value.ExactString())
				if err == nil {
					var tys []types.Type
					for _, x := range e.Args[1:] {
						tys = append(tys, fv.typeOf(x))
					}
					if m := fv.eng.sprintfModel(format, tys); m != nil {
						a := args()
						term := m.apply(a[1:])
						if m.injective {
							fv.assumedLib("fmt.Sprintf(" + strconv.Quote(format) + ", ...) is a fixed-width, self-delimiting rendering of its arguments (injective)")
						} else {
							fv.assumedLib("fmt.Sprintf(" + strconv.Quote(format) + ", ...) is a function of its arguments (not self-delimiting: not injective)")
						}
						return []Val{{T: term, Ty: t}}, true
					}
				}
			}
		}
		return nil, false
	case "errors.Is":
		a := args()
		fv.eng.needErr = true
		return []Val{{T: "(or (= " + a[0].T + " " + a[1].T + ") (and (not (= " + a[0].T + " 0)) (err.wraps " + a[0].T + " " + a[1].T + ")))", Ty: boolT}}, true
	case "errors.New":
		args()
		r := fv.fresh("err", "Int")
		fv.assume(st, "(> "+r+" 0)")
		return []Val{{T: r, Ty: t}}, true
	case "fmt.Errorf":
		a := args()
		r := fv.fresh("err", "Int")
		fv.assume(st, "(> "+r+" 0)")
		for i, v := range a {
			if i > 0 && v.Ty != nil && isErrorType(v.Ty) {
				fv.assume(st, "(=> (not (= "+v.T+" 0)) (err.wraps "+r+" "+v.T+"))")
			}
		}
		return []Val{{T: r, Ty: t}}, true
	}
	// logging: arguments evaluated (for their own safety), no effect
	if strings.HasPrefix(full, "log.Print") || strings.HasPrefix(full, "github.com/golang/glog.") || strings.HasPrefix(full, "(github.com/golang/glog.Verbose).") ||
		strings.HasPrefix(full, "log.Fatal") && false {
		args()
		fv.note("logging calls dropped (assumed side-effect free and non-panicking)")
		var out []Val
		if sig, ok := fn.Type().(*types.Signature); ok {
			for _, rt := range resultTypes(sig) {
				out = append(out, fv.havocVal(st, "log", rt))
			}
		}
		return out, true
	}
	if strings.HasPrefix(full, "(*sync.Mutex).") || strings.HasPrefix(full, "(*sync.RWMutex).") {
		return fv.lockModel(st, full, e), true
	}
	return nil, false
}

// hasFormattingMethod: fmt's print verbs without an explicit numeric verb (Fprint, %v, %s) call these methods
// instead of printing the number.
func hasFormattingMethod(t types.Type) bool {
	for _, tt := range []types.Type{t, types.NewPointer(t)} {
		ms := types.NewMethodSet(tt)
		for _, n := range []string{"String", "Error", "Format", "GoString"} {
			if ms.Lookup(nil, n) != nil {
				return true
			}
		}
	}
	return false
}

func hasMethod(t types.Type, name string) bool {
	if t == nil {
		return false
	}
	for _, tt := range []types.Type{t, types.NewPointer(t)} {
		if types.NewMethodSet(tt).Lookup(nil, name) != nil {
			return true
		}
	}
	return false
}

func itoa(i int) string {
	s := ""
	if i == 0 {
		return "0"
	}
	for i > 0 {
		s = string(rune('0'+i%10)) + s
		i /= 10
	}
	return s
}

// rankTerm: the rank of a byte slice's contents in lexicographic byte order, a value of the uninterpreted sort
// Rank that is totally ordered by rank.le (reflexive, antisymmetric, transitive, total). bytes.Compare is decided
// by rank.le; equal contents have equal rank and vice versa (assumed where bytes.Equal/Compare run).
func (fv *FuncVerifier) rankTerm(st *State, a Val) string {
	fv.eng.needBytesRank()
	h := fv.eng.sc.sliceHeap(types.Typ[types.Uint8])
	return "(bytes.rank (select " + fv.heapOf(st, h) + " " + sRef(a.T) + ") " + sOff(a.T) + " " + sLen(a.T) + ")"
}

func (eng *Engine) needBytesRank() {
	if _, ok := eng.ufuns["bytes.rank"]; ok {
		return
	}
	eng.ufuns["bytes.rank"] = &UFun{Name: "bytes.rank", Args: []string{"(Array Int Int)", "Int", "Int"}, Ret: "Rank"}
	eng.ufuns["rank.le"] = &UFun{Name: "rank.le", Args: []string{"Rank", "Rank"}, Ret: "Bool"}
	eng.axioms = append(eng.axioms,
		"(forall ((a Rank) (b Rank)) (! (or (rank.le a b) (rank.le b a)) :pattern ((rank.le a b))))",
		"(forall ((a Rank) (b Rank)) (! (=> (and (rank.le a b) (rank.le b a)) (= a b)) :pattern ((rank.le a b) (rank.le b a))))",
		"(forall ((a Rank) (b Rank) (c Rank)) (! (=> (and (rank.le a b) (rank.le b c)) (rank.le a c)) :pattern ((rank.le a b) (rank.le b c))))")
}

// lockModel tracks a ghost lock state per syntactic lock path.
func (fv *FuncVerifier) lockModel(st *State, full string, e *ast.CallExpr) []Val {
	sel := unparen(e.Fun).(*ast.SelectorExpr)
	path := strings.ReplaceAll(fv.exprText(sel.X), " ", "")
	cur := fv.lockTerm(st, path)
	method := sel.Sel.Name
	switch method {
	case "Lock":
		fv.oblige(st, "lock", path+".Lock() while held", "(= "+cur+" 0)")
		st.locks[path] = "2"
	case "RLock":
		fv.oblige(st, "lock", path+".RLock() while write-held", "(not (= "+cur+" 2))")
		st.locks[path] = "1"
	case "Unlock":
		fv.oblige(st, "lock", path+".Unlock() of unlocked mutex", "(= "+cur+" 2)")
		st.locks[path] = "0"
	case "RUnlock":
		fv.oblige(st, "lock", path+".RUnlock() of unlocked mutex", "(= "+cur+" 1)")
		st.locks[path] = "0"
	case "TryLock", "TryRLock":
		r := fv.fresh("trylock", "Bool")
		return []Val{{T: r, Ty: types.Typ[types.Bool]}}
	}
	return nil
}

func (eng *Engine) needTime() {
	if _, ok := eng.ufuns["time.inst"]; ok {
		return
	}
	var ts string
	for _, tp := range eng.allTypes {
		if tp.Path() == "time" {
			if o := tp.Scope().Lookup("Time"); o != nil {
				ts = eng.sc.sortOf(o.Type())
			}
		}
	}
	if ts == "" {
		ts = "Int"
	}
	eng.ufuns["time.inst"] = &UFun{Name: "time.inst", Args: []string{ts}, Ret: "Int"}
}

func (eng *Engine) needFieldAddr() {
	if _, ok := eng.ufuns["addr.field"]; ok {
		return
	}
	eng.ufuns["addr.field"] = &UFun{Name: "addr.field", Args: []string{"Int", "Int"}, Ret: "Int"}
	eng.axioms = append(eng.axioms, "(forall ((b Int) (k Int)) (! (> (addr.field b k) 0) :pattern ((addr.field b k))))")
	eng.axioms = append(eng.axioms, "(forall ((b1 Int) (k1 Int) (b2 Int) (k2 Int)) (! (=> (= (addr.field b1 k1) (addr.field b2 k2)) (and (= b1 b2) (= k1 k2))) :pattern ((addr.field b1 k1) (addr.field b2 k2))))")
}

// sprintfFn is the model of fmt.Sprintf for one constant format.
type sprintfFn struct {
	name      string
	expand    []int // per argument: 0 = pass as is, n > 0 = array of n elements passed element-wise
	injective bool
}

func (m *sprintfFn) apply(args []Val) string {
	var b strings.Builder
	b.WriteString("(" + m.name)
	for i, a := range args {
		if i < len(m.expand) && m.expand[i] > 0 {
			for k := 0; k < m.expand[i]; k++ {
				fmt.Fprintf(&b, " (select %s %d)", a.T, k)
			}
		} else {
			b.WriteString(" " + a.T)
		}
	}
	b.WriteString(")")
	return b.String()
}

func maxDecDigits(t types.Type) int {
	if b, ok := t.Underlying().(*types.Basic); ok {
		switch b.Kind() {
		case types.Uint8:
			return 3
		case types.Uint16:
			return 5
		case types.Uint32:
			return 10
		case types.Uint64, types.Uint, types.Uintptr:
			return 20
		}
	}
	return 0 // signed or not an integer: no fixed width
}

// sprintfModel returns the model for a constant format, or nil when the format is outside the modelled subset.
func (eng *Engine) sprintfModel(format string, tys []types.Type) *sprintfFn {
	if eng.sprintfFns == nil {
		eng.sprintfFns = map[string]*sprintfFn{}
	}
	key := format
	for _, t := range tys {
		key += "|" + t.String()
	}
	if m, ok := eng.sprintfFns[key]; ok {
		return m
	}
	m := &sprintfFn{injective: true}
	var sorts []string
	arg := 0
	nstr := 0
	for i := 0; i < len(format); i++ {
		if format[i] != '%' {
			continue
		}
		i++
		if i >= len(format) {
			return nil
		}
		if format[i] == '%' {
			continue
		}
		prec := -1
		if format[i] == '.' {
			prec = 0
			i++
			for i < len(format) && format[i] >= '0' && format[i] <= '9' {
				prec = prec*10 + int(format[i]-'0')
				i++
			}
		}
		if i >= len(format) || arg >= len(tys) {
			return nil
		}
		t := tys[arg]
		switch format[i] {
		case 'd':
			et, n := t, 0
			if a, ok := t.Underlying().(*types.Array); ok {
				et, n = a.Elem(), int(a.Len())
				if n == 0 || n > 16 {
					return nil
				}
			}
			if !isInteger(et) {
				return nil
			}
			if w := maxDecDigits(et); w == 0 || prec < w {
				m.injective = false // the field has no fixed width
			}
			m.expand = append(m.expand, n)
			if n == 0 {
				sorts = append(sorts, "Int")
			}
			for k := 0; k < n; k++ {
				sorts = append(sorts, "Int")
			}
		case 's':
			if !isString(t) {
				return nil
			}
			nstr++
			m.expand = append(m.expand, 0)
			sorts = append(sorts, "Str")
		default:
			return nil
		}
		arg++
	}
	if arg != len(tys) {
		return nil
	}
	if nstr > 1 {
		m.injective = false
	}
	h := fnv.New32a()
	h.Write([]byte(key))
	m.name = fmt.Sprintf("fmt.sprintf_%08x", h.Sum32())
	eng.ufuns[m.name] = &UFun{Name: m.name, Args: sorts, Ret: "Str"}
	if m.injective && len(sorts) > 0 {
		var bs, as, cs, eq []string
		for i, srt := range sorts {
			bs = append(bs, fmt.Sprintf("(a%d %s) (b%d %s)", i, srt, i, srt))
			as = append(as, fmt.Sprintf("a%d", i))
			cs = append(cs, fmt.Sprintf("b%d", i))
			eq = append(eq, fmt.Sprintf("(= a%d b%d)", i, i))
		}
		fa, fb := "("+m.name+" "+strings.Join(as, " ")+")", "("+m.name+" "+strings.Join(cs, " ")+")"
		eng.axioms = append(eng.axioms, "(forall ("+strings.Join(bs, " ")+") (! (=> (= "+fa+" "+fb+") (and "+strings.Join(eq, " ")+" true)) :pattern ("+fa+" "+fb+")))")
	}
	eng.sprintfFns[key] = m
	return m
}
