package main

// Symbolic execution of statements.

import (
	"sort"
	"fmt"
	"go/ast"
	"go/token"
	"go/types"
	"strconv"
	"strings"
)

func (fv *FuncVerifier) declareVar(st *State, o *types.Var, term string) {
	if o == nil || o.Name() == "_" {
		return
	}
	if fv.boxed[o] {
		// heap-resident variable
		if au, ok := o.Type().Underlying().(*types.Array); ok {
			// boxed array lives as a row of the slice heap
			h := fv.eng.sc.sliceHeap(au.Elem())
			r := fv.allocRef(st)
			st.heaps[h] = "(store " + fv.heapOf(st, h) + " " + r + " " + term + ")"
			st.vars[o] = r
			return
		}
		h := fv.eng.sc.ptrHeap(o.Type())
		r := fv.allocRef(st)
		st.heaps[h] = "(store " + fv.heapOf(st, h) + " " + r + " " + term + ")"
		st.vars[o] = r
		return
	}
	st.vars[o] = term
}

func (fv *FuncVerifier) readBoxedArray(st *State, o *types.Var) string {
	au := o.Type().Underlying().(*types.Array)
	h := fv.eng.sc.sliceHeap(au.Elem())
	return "(select " + fv.heapOf(st, h) + " " + st.vars[o] + ")"
}

func (fv *FuncVerifier) execBlock(st *State, list []ast.Stmt) {
	for _, s := range list {
		if st.dead {
			return
		}
		fv.execStmt(st, s)
	}
}

func (fv *FuncVerifier) execStmt(st *State, s ast.Stmt) {
	if s == nil || st.dead {
		return
	}
	if s.Pos().IsValid() {
		fv.curPos = s.Pos()
	}
	if key, ok := fv.stmtSites[s]; ok {
		// ghost snapshots anchored at a statement ("before if#1 let q = e", "after if#1 let q = e")
		if cls, ok := fv.contract.BeforeLets[key]; ok {
			fv.bindLets(st, cls, s.Pos())
		}
		if cls, ok := fv.contract.Befores[key]; ok {
			fv.siteAsserts(st, "before", key, cls, s.Pos())
		}
		if cls, ok := fv.contract.Asserts[key]; ok {
			// registered first, so it runs after the let bindings registered below (defers run last-in first-out)
			defer func() { fv.siteAsserts(st, "after", key, cls, s.End()) }()
		}
		if cls, ok := fv.contract.AfterLets[key]; ok {
			defer func() { fv.bindLets(st, cls, s.End()) }()
		}
	}
	defer func() {
		switch s.(type) {
		case *ast.ExprStmt, *ast.AssignStmt, *ast.DeclStmt, *ast.IncDecStmt:
			fv.flushWriteBacks(st)
			fv.flushAsserts(st)
		}
	}()
	switch s := s.(type) {
	case *ast.BlockStmt:
		fv.execBlock(st, s.List)
	case *ast.ExprStmt:
		if call, ok := unparen(s.X).(*ast.CallExpr); ok {
			fv.evalCall(st, call)
		} else {
			fv.eval(st, s.X)
		}
	case *ast.AssignStmt:
		fv.execAssign(st, s)
	case *ast.DeclStmt:
		gd, ok := s.Decl.(*ast.GenDecl)
		if !ok || gd.Tok != token.VAR {
			return
		}
		for _, sp := range gd.Specs {
			vs := sp.(*ast.ValueSpec)
			if len(vs.Values) == 0 {
				for _, nm := range vs.Names {
					if o, ok := fv.info().ObjectOf(nm).(*types.Var); ok {
						fv.declareVar(st, o, fv.eng.sc.zero(o.Type()))
					}
				}
				continue
			}
			if len(vs.Values) == 1 && len(vs.Names) > 1 {
				vals := fv.evalMulti(st, vs.Values[0], len(vs.Names))
				for i, nm := range vs.Names {
					if o, ok := fv.info().ObjectOf(nm).(*types.Var); ok {
						fv.declareVar(st, o, fv.convertAssign(st, vals[i], o.Type()).T)
					}
				}
				continue
			}
			for i, nm := range vs.Names {
				o, ok := fv.info().ObjectOf(nm).(*types.Var)
				if !ok {
					fv.eval(st, vs.Values[i])
					continue
				}
				fv.bindClosure(o, vs.Values[i])
				v := fv.evalElt(st, vs.Values[i], o.Type())
				fv.declareVar(st, o, v.T)
			}
		}
	case *ast.IncDecStmt:
		x := fv.eval(st, s.X)
		one := Val{T: "1", Ty: x.Ty}
		op := token.ADD
		if s.Tok == token.DEC {
			op = token.SUB
		}
		fv.assign(st, s.X, Val{T: fv.arith(st, op, x, one, x.Ty, fv.exprText(s.X)), Ty: x.Ty})
	case *ast.IfStmt:
		fv.execIf(st, s)
	case *ast.ForStmt:
		fv.execFor(st, s, "")
	case *ast.RangeStmt:
		fv.execRange(st, s, "")
	case *ast.LabeledStmt:
		switch inner := s.Stmt.(type) {
		case *ast.ForStmt:
			fv.execFor(st, inner, s.Label.Name)
		case *ast.RangeStmt:
			fv.execRange(st, inner, s.Label.Name)
		case *ast.SwitchStmt:
			fv.execSwitch(st, inner, s.Label.Name)
		default:
			fv.execStmt(st, s.Stmt)
		}
	case *ast.SwitchStmt:
		fv.execSwitch(st, s, "")
	case *ast.TypeSwitchStmt:
		fv.execTypeSwitch(st, s)
	case *ast.ReturnStmt:
		fr := fv.frames[len(fv.frames)-1]
		fv.doReturn(st, fr, s.Results, s)
	case *ast.BranchStmt:
		fv.execBranch(st, s)
	case *ast.DeferStmt:
		fv.execDefer(st, s)
	case *ast.EmptyStmt:
	case *ast.GoStmt:
		if v, ok := st.ghost["gostarted"]; ok {
			// ghost counter of goroutines started (when a sidecar declares it); the goroutine itself is not run
			st.ghost["gostarted"] = Val{T: "(+ " + v.T + " 1)", Sort: "Int"}
			for _, a := range s.Call.Args {
				fv.eval(st, a)
			}
			fv.note("go statement: counted (ghost gostarted), its body runs elsewhere: " + fv.exprText(s.Call.Fun))
			break
		}
		fv.unsupported("go statement")
		fv.note("go statement dropped: " + fv.exprText(s.Call.Fun))
		hs := map[string]bool{}
		fv.havocHeaps(st, hs, true)
	case *ast.SendStmt:
		fv.eval(st, s.Chan)
		fv.eval(st, s.Value)
		fv.chanOp(st, fv.exprText(s.Chan)+" <- "+fv.exprText(s.Value))
	case *ast.SelectStmt:
		fv.unsupported("select statement")
		fv.havocHeaps(st, map[string]bool{}, true)
	default:
		fv.unsupported(fmt.Sprintf("statement %T", s))
	}
}

func (fv *FuncVerifier) bindClosure(o *types.Var, rhs ast.Expr) {
	if lit, ok := unparen(rhs).(*ast.FuncLit); ok {
		fv.closures[o] = lit
	}
}

// evalMulti evaluates an expression producing n values (call, comma-ok forms).
func (fv *FuncVerifier) evalMulti(st *State, e ast.Expr, n int) []Val {
	e = unparen(e)
	var vals []Val
	switch x := e.(type) {
	case *ast.CallExpr:
		vals = fv.evalCall(st, x)
	case *ast.IndexExpr:
		if mt, ok := fv.typeOf(x.X).Underlying().(*types.Map); ok {
			m := fv.eval(st, x.X)
			k := fv.eval(st, x.Index)
			vals = fv.mapLookup(st, m, mt, k)
		}
	case *ast.TypeAssertExpr:
		v := fv.eval(st, x.X)
		t := fv.info().Types[x.Type].Type
		vals = fv.typeAssert(st, v, t, true, fv.exprText(x))
	case *ast.UnaryExpr:
		if x.Op == token.ARROW {
			fv.unsupported("channel receive")
		}
	}
	for len(vals) < n {
		var t types.Type
		if tup, ok := fv.typeOf(e).(*types.Tuple); ok && len(vals) < tup.Len() {
			t = tup.At(len(vals)).Type()
		}
		vals = append(vals, fv.havocVal(st, "multi", t))
	}
	return vals
}

func (fv *FuncVerifier) execAssign(st *State, s *ast.AssignStmt) {
	define := s.Tok == token.DEFINE
	if s.Tok != token.ASSIGN && s.Tok != token.DEFINE {
		// op-assign
		op := map[token.Token]token.Token{token.ADD_ASSIGN: token.ADD, token.SUB_ASSIGN: token.SUB, token.MUL_ASSIGN: token.MUL, token.QUO_ASSIGN: token.QUO, token.REM_ASSIGN: token.REM, token.AND_ASSIGN: token.AND, token.OR_ASSIGN: token.OR, token.XOR_ASSIGN: token.XOR, token.SHL_ASSIGN: token.SHL, token.SHR_ASSIGN: token.SHR, token.AND_NOT_ASSIGN: token.AND_NOT}[s.Tok]
		x := fv.eval(st, s.Lhs[0])
		y := fv.eval(st, s.Rhs[0])
		fv.assign(st, s.Lhs[0], Val{T: fv.arith(st, op, x, y, x.Ty, fv.exprText(s.Lhs[0])+s.Tok.String()+fv.exprText(s.Rhs[0])), Ty: x.Ty})
		return
	}
	var vals []Val
	if len(s.Rhs) == 1 && len(s.Lhs) > 1 {
		vals = fv.evalMulti(st, s.Rhs[0], len(s.Lhs))
	} else {
		for i, r := range s.Rhs {
			if id, ok := s.Lhs[i].(*ast.Ident); ok {
				if o, ok := fv.info().ObjectOf(id).(*types.Var); ok {
					fv.bindClosure(o, r)
				}
			}
			lt := fv.typeOf(s.Lhs[i])
			if lt != nil {
				vals = append(vals, fv.evalElt(st, r, lt))
			} else {
				vals = append(vals, fv.eval(st, r))
			}
		}
	}
	for i, l := range s.Lhs {
		if id, ok := l.(*ast.Ident); ok {
			if id.Name == "_" {
				continue
			}
			if define {
				if o, ok := fv.info().Defs[id].(*types.Var); ok && o != nil {
					fv.declareVar(st, o, fv.convertAssign(st, vals[i], o.Type()).T)
					continue
				}
			}
		}
		fv.assign(st, l, vals[i])
	}
}

// assign stores v into the location denoted by lhs.
func (fv *FuncVerifier) assign(st *State, lhs ast.Expr, v Val) {
	sc := fv.eng.sc
	lhs = unparen(lhs)
	lt := fv.typeOf(lhs)
	if lt != nil {
		v = fv.convertAssign(st, v, lt)
	}
	text := fv.exprText(lhs)
	switch l := lhs.(type) {
	case *ast.Ident:
		if l.Name == "_" {
			return
		}
		o, ok := fv.info().ObjectOf(l).(*types.Var)
		if !ok {
			fv.unsupported("assignment to " + l.Name)
			return
		}
		if o.Pkg() != nil && o.Parent() == o.Pkg().Scope() {
			fv.note("write to package-level variable " + o.Name() + " not tracked")
			fv.eng.mutatedGlobals[o] = true
			return
		}
		if fv.boxed[o] {
			if _, has := st.vars[o]; !has {
				fv.declareVar(st, o, v.T)
				return
			}
			if au, ok := o.Type().Underlying().(*types.Array); ok {
				h := sc.sliceHeap(au.Elem())
				st.heaps[h] = "(store " + fv.heapOf(st, h) + " " + st.vars[o] + " " + v.T + ")"
				return
			}
			h := sc.ptrHeap(o.Type())
			st.heaps[h] = "(store " + fv.heapOf(st, h) + " " + st.vars[o] + " " + v.T + ")"
			return
		}
		st.vars[o] = v.T
	case *ast.IndexExpr:
		xt := fv.typeOf(l.X)
		switch u := xt.Underlying().(type) {
		case *types.Slice:
			x := fv.eval(st, l.X)
			i := fv.eval(st, l.Index)
			fv.oblige(st, "bounds", text, "(and (<= 0 "+i.T+") (< "+i.T+" "+sLen(x.T)+"))")
			fv.writeElem(st, x, u.Elem(), i.T, v.T, text)
			fv.nameHeap(st, sc.sliceHeap(u.Elem()))
		case *types.Array:
			i := fv.eval(st, l.Index)
			if !isNumeral(i.T) {
				fv.oblige(st, "bounds", text, fmt.Sprintf("(and (<= 0 %s) (< %s %d))", i.T, i.T, u.Len()))
			}
			// boxed array variable: write to its row
			if id, ok := unparen(l.X).(*ast.Ident); ok {
				if o, ok := fv.info().ObjectOf(id).(*types.Var); ok && fv.boxed[o] {
					h := sc.sliceHeap(u.Elem())
					H := fv.heapOf(st, h)
					st.heaps[h] = "(store " + H + " " + st.vars[o] + " (store (select " + H + " " + st.vars[o] + ") " + i.T + " " + v.T + "))"
					return
				}
			}
			arr := fv.eval(st, l.X)
			fv.assign(st, l.X, Val{T: "(store " + arr.T + " " + i.T + " " + v.T + ")", Ty: xt})
		case *types.Map:
			m := fv.eval(st, l.X)
			k := fv.eval(st, l.Index)
			fv.oblige(st, "nil", "assignment to entry in nil map "+text, "(not (= "+m.T+" 0))")
			hv, hh := sc.mapHeaps(u)
			Hv, Hh := fv.heapOf(st, hv), fv.heapOf(st, hh)
			fv.frameWrite(st, hv, m.T, "", "", text, "")
			st.heaps[hv] = "(store " + Hv + " " + m.T + " (store (select " + Hv + " " + m.T + ") " + k.T + " " + v.T + "))"
			st.heaps[hh] = "(store " + Hh + " " + m.T + " (store (select " + Hh + " " + m.T + ") " + k.T + " true))"
		case *types.Pointer:
			if au, ok := u.Elem().Underlying().(*types.Array); ok {
				p := fv.eval(st, l.X)
				i := fv.eval(st, l.Index)
				fv.oblige(st, "nil", text, "(not (= "+p.T+" 0))")
				fv.oblige(st, "bounds", text, fmt.Sprintf("(and (<= 0 %s) (< %s %d))", i.T, i.T, au.Len()))
				h := sc.ptrHeap(u.Elem())
				H := fv.heapOf(st, h)
				fv.frameWrite(st, h, p.T, "", "", text, "")
				st.heaps[h] = "(store " + H + " " + p.T + " (store (select " + H + " " + p.T + ") " + i.T + " " + v.T + "))"
				return
			}
			fv.unsupported("index assignment through pointer")
		default:
			fv.unsupported("index assignment on " + xt.String())
		}
	case *ast.SelectorExpr:
		sel, ok := fv.info().Selections[l]
		if !ok {
			// qualified global
			fv.note("write to package-level variable " + text + " not tracked")
			return
		}
		// compute container
		path := sel.Index()
		base := l.X
		bt := fv.typeOf(base)
		if tgt := fv.aliasTarget(base); tgt != nil {
			// write through an interior-pointer alias: update the enclosing object
			base = tgt
			bt = fv.typeOf(tgt)
		}
		fv.assignField(st, base, bt, path, v, text)
	case *ast.StarExpr:
		p := fv.eval(st, l.X)
		fv.oblige(st, "nil", text, "(not (= "+p.T+" 0))")
		pt := fv.typeOf(l.X).Underlying().(*types.Pointer)
		h := sc.ptrHeap(pt.Elem())
		fv.frameWrite(st, h, p.T, "", "", text, "")
		st.heaps[h] = "(store " + fv.heapOf(st, h) + " " + p.T + " " + v.T + ")"
	default:
		fv.unsupported(fmt.Sprintf("assignment target %T", lhs))
	}
}

// assignField updates base.path = v.
func (fv *FuncVerifier) assignField(st *State, base ast.Expr, bt types.Type, path []int, v Val, text string) {
	sc := fv.eng.sc
	if p, ok := bt.Underlying().(*types.Pointer); ok {
		r := fv.eval(st, base)
		fv.oblige(st, "nil", text, "(not (= "+r.T+" 0))")
		h := sc.ptrHeap(p.Elem())
		H := fv.heapOf(st, h)
		cur := "(select " + H + " " + r.T + ")"
		nv, ok := fv.updatePath(st, cur, p.Elem(), path, v, text)
		if !ok {
			return
		}
		fv.frameWrite(st, h, r.T, "", "", text, "")
		st.heaps[h] = "(store " + H + " " + r.T + " " + nv + ")"
		fv.nameHeap(st, h)
		return
	}
	cur := fv.eval(st, base)
	nv, ok := fv.updatePath(st, cur.T, bt, path, v, text)
	if !ok {
		return
	}
	fv.assign(st, base, Val{T: nv, Ty: bt})
}

// updatePath returns the struct value cur with the field at path replaced by v.
func (fv *FuncVerifier) updatePath(st *State, cur string, t types.Type, path []int, v Val, text string) (string, bool) {
	sc := fv.eng.sc
	su, ok := t.Underlying().(*types.Struct)
	if !ok {
		fv.unsupported("field update on non-struct " + t.String())
		return "", false
	}
	n := sc.sortOf(t)
	f := su.Field(path[0])
	var fieldVal string
	if len(path) == 1 {
		fieldVal = v.T
	} else {
		ft := f.Type()
		inner := "(" + sc.fieldSel(n, f) + " " + cur + ")"
		if p, ok := ft.Underlying().(*types.Pointer); ok {
			// embedded pointer: update through the heap
			fv.oblige(st, "nil", text, "(not (= "+inner+" 0))")
			h := sc.ptrHeap(p.Elem())
			H := fv.heapOf(st, h)
			nv, ok := fv.updatePath(st, "(select "+H+" "+inner+")", p.Elem(), path[1:], v, text)
			if !ok {
				return "", false
			}
			fv.frameWrite(st, h, inner, "", "", text, "")
			st.heaps[h] = "(store " + H + " " + inner + " " + nv + ")"
			return cur, true
		}
		nv, ok := fv.updatePath(st, inner, ft, path[1:], v, text)
		if !ok {
			return "", false
		}
		fieldVal = nv
	}
	var b strings.Builder
	b.WriteString("(mk_" + n)
	for i := 0; i < su.NumFields(); i++ {
		if i == path[0] {
			b.WriteString(" " + fieldVal)
		} else {
			b.WriteString(" (" + sc.fieldSel(n, su.Field(i)) + " " + cur + ")")
		}
	}
	b.WriteString(")")
	return b.String(), true
}

func (fv *FuncVerifier) execIf(st *State, s *ast.IfStmt) {
	if s.Init != nil {
		fv.execStmt(st, s.Init)
	}
	c := fv.eval(st, s.Cond)
	c.T = fv.namePC(c.T)
	// "after callee#k" directives whose call site is in the condition take effect here, in both branches
	fv.flushAsserts(st)
	thenSt := st.clone()
	thenSt.pc = fv.namePC(and(st.pc, c.T))
	fv.branch(thenSt)
	elseSt := st.clone()
	elseSt.pc = fv.namePC(and(st.pc, not(c.T)))
	fv.branch(elseSt)
	fv.execBlock(thenSt, s.Body.List)
	if s.Else != nil {
		fv.execStmt(elseSt, s.Else)
	}
	m := fv.merge([]*State{thenSt, elseSt})
	*st = *m
}

func (fv *FuncVerifier) execBranch(st *State, s *ast.BranchStmt) {
	label := ""
	if s.Label != nil {
		label = s.Label.Name
	}
	switch s.Tok {
	case token.BREAK:
		for i := len(fv.loops) - 1; i >= 0; i-- {
			lc := fv.loops[i]
			if label == "" || lc.label == label {
				lc.breaks = append(lc.breaks, st.clone())
				st.dead = true
				st.pc = "false"
				return
			}
		}
	case token.CONTINUE:
		for i := len(fv.loops) - 1; i >= 0; i-- {
			lc := fv.loops[i]
			if lc.isSwitch {
				continue
			}
			if label == "" || lc.label == label {
				lc.conts = append(lc.conts, st.clone())
				st.dead = true
				st.pc = "false"
				return
			}
		}
	case token.GOTO, token.FALLTHROUGH:
		fv.unsupported("goto/fallthrough")
	}
	if fv.regionStart.IsValid() && (s.Tok == token.BREAK || s.Tok == token.CONTINUE) && label == "" && len(fv.frames) == 1 {
		// leaving the verified region: its postconditions are due here (no result values)
		fv.note("break/continue out of the region is a region exit")
		fv.regionExit = append(fv.regionExit, s.Tok.String())
		fv.checkPost(st, nil, s)
		st.dead = true
		st.pc = "false"
		return
	}
	fv.unsupported("branch without target")
	st.dead = true
	st.pc = "false"
}

func (fv *FuncVerifier) execSwitch(st *State, s *ast.SwitchStmt, label string) {
	if s.Init != nil {
		fv.execStmt(st, s.Init)
	}
	var tag *Val
	var tagT types.Type
	if s.Tag != nil {
		v := fv.eval(st, s.Tag)
		v.T = fv.nameTerm(st, v.T, fv.eng.sc.sortOf(v.Ty))
		tag = &v
		tagT = fv.typeOf(s.Tag)
	}
	lc := &loopCtx{label: label, isSwitch: true}
	fv.loops = append(fv.loops, lc)
	var outs []*State
	rest := st.clone() // state in which no earlier case matched
	var deflt *ast.CaseClause
	for _, cc := range s.Body.List {
		cl := cc.(*ast.CaseClause)
		if cl.List == nil {
			deflt = cl
			continue
		}
		cond := "false"
		for _, ce := range cl.List {
			v := fv.eval(rest, ce)
			if tag != nil {
				cond = or(cond, fv.eqTerm(tag.T, v.T, tagT))
			} else {
				cond = or(cond, v.T)
			}
		}
		cond = fv.namePC(cond)
		br := rest.clone()
		br.pc = fv.namePC(and(rest.pc, cond))
		fv.branch(br)
		fv.execBlock(br, cl.Body)
		outs = append(outs, br)
		rest.pc = fv.namePC(and(rest.pc, not(cond)))
	}
	if deflt != nil {
		fv.execBlock(rest, deflt.Body)
	}
	outs = append(outs, rest)
	fv.loops = fv.loops[:len(fv.loops)-1]
	outs = append(outs, lc.breaks...)
	m := fv.merge(outs)
	*st = *m
}

func (fv *FuncVerifier) execTypeSwitch(st *State, s *ast.TypeSwitchStmt) {
	if s.Init != nil {
		fv.execStmt(st, s.Init)
	}
	var x ast.Expr
	switch a := s.Assign.(type) {
	case *ast.AssignStmt:
		x = a.Rhs[0].(*ast.TypeAssertExpr).X
	case *ast.ExprStmt:
		x = a.X.(*ast.TypeAssertExpr).X
	}
	v := fv.eval(st, x)
	fv.eng.needDyn = true
	lc := &loopCtx{isSwitch: true}
	fv.loops = append(fv.loops, lc)
	var outs []*State
	rest := st.clone()
	var deflt *ast.CaseClause
	for _, cc := range s.Body.List {
		cl := cc.(*ast.CaseClause)
		if cl.List == nil {
			deflt = cl
			continue
		}
		cond := "false"
		var single types.Type
		for _, te := range cl.List {
			tt := fv.info().Types[te].Type
			if tt == nil || isNilType(tt) {
				cond = or(cond, "(= "+v.T+" 0)")
				continue
			}
			if _, isIface := tt.Underlying().(*types.Interface); isIface {
				ok := fv.fresh("impl", "Bool")
				cond = or(cond, "(and (not (= "+v.T+" 0)) "+ok+")")
			} else {
				cond = or(cond, "(and (not (= "+v.T+" 0)) (= (dyn.type "+v.T+") "+fv.dynTag(tt)+"))")
			}
			if len(cl.List) == 1 {
				single = tt
			}
		}
		cond = fv.namePC(cond)
		br := rest.clone()
		br.pc = fv.namePC(and(rest.pc, cond))
		fv.branch(br)
		if o, ok := fv.info().Implicits[cl].(*types.Var); ok {
			if single != nil {
				vals := fv.typeAssert(br, v, single, true, "typeswitch")
				fv.declareVar(br, o, vals[0].T)
			} else {
				fv.declareVar(br, o, v.T)
			}
		}
		fv.execBlock(br, cl.Body)
		outs = append(outs, br)
		rest.pc = fv.namePC(and(rest.pc, not(cond)))
	}
	if deflt != nil {
		if o, ok := fv.info().Implicits[deflt].(*types.Var); ok {
			fv.declareVar(rest, o, v.T)
		}
		fv.execBlock(rest, deflt.Body)
	}
	outs = append(outs, rest)
	fv.loops = fv.loops[:len(fv.loops)-1]
	outs = append(outs, lc.breaks...)
	m := fv.merge(outs)
	*st = *m
}

func isNilType(t types.Type) bool {
	b, ok := t.(*types.Basic)
	return ok && b.Kind() == types.UntypedNil
}

func (fv *FuncVerifier) execDefer(st *State, s *ast.DeferStmt) {
	fr := fv.frames[len(fv.frames)-1]
	call := s.Call
	// defer func() { ... recover() ... }()
	if lit, ok := unparen(call.Fun).(*ast.FuncLit); ok {
		hasRecover := false
		ast.Inspect(lit.Body, func(n ast.Node) bool {
			if c, ok := n.(*ast.CallExpr); ok {
				if id, ok := c.Fun.(*ast.Ident); ok && id.Name == "recover" {
					hasRecover = true
				}
			}
			return true
		})
		if hasRecover {
			fv.recovers = true
			fv.note("function recovers from panics: panic sites become the error result")
			return
		}
		fr.defers = append(fr.defers, func(s2 *State) {
			fv.inlineClosure(s2, lit, call.Args, "deferred")
		})
		return
	}
	// arguments are evaluated now
	var args []Val
	for _, a := range call.Args {
		args = append(args, fv.eval(st, a))
	}
	fr.defers = append(fr.defers, func(s2 *State) {
		fv.evalCall(s2, call)
	})
	_ = args
}

// doReturn handles return (results may be nil for bare return).
func (fv *FuncVerifier) doReturn(st *State, fr *frameCtx, results []ast.Expr, at ast.Node) {
	_, isRetStmt := at.(*ast.ReturnStmt)
	if fv.contract != nil && fv.contract.Flags["noreturn"] != "" && len(fv.frames) <= 1 && !st.dead && (isRetStmt || fv.contract.Region == "") {
		// "flag noreturn": the function (a service loop, or the region of one) must never return: every reachable
		// return is a failed obligation (kind never-returns: reported even though no such obligation existed before)
		fv.oblige(st, "never-returns", "the function returns", "false")
	}
	rts := resultTypes(fr.sig)
	var vals []Val
	if len(results) == 1 && len(rts) > 1 {
		vals = fv.evalMulti(st, results[0], len(rts))
	} else {
		for i, r := range results {
			vals = append(vals, fv.evalElt(st, r, rts[i]))
		}
	}
	if len(results) > 0 && len(fr.results) == len(rts) {
		for i, o := range fr.results {
			fv.assign2(st, o.(*types.Var), fv.convertAssign(st, vals[i], rts[i]).T)
		}
	}
	// run defers in reverse
	for i := len(fr.defers) - 1; i >= 0; i-- {
		if st.dead {
			break
		}
		fr.defers[i](st)
	}
	if st.dead {
		return
	}
	// final result values
	var final []Val
	if len(fr.results) == len(rts) && len(rts) > 0 {
		for i, o := range fr.results {
			final = append(final, Val{T: fv.readVar(st, o.(*types.Var)).T, Ty: rts[i]})
		}
	} else {
		for i := range rts {
			if i < len(vals) {
				final = append(final, fv.convertAssign(st, vals[i], rts[i]))
			} else {
				final = append(final, Val{T: fv.eng.sc.zero(rts[i]), Ty: rts[i]})
			}
		}
	}
	if fr.isClosure {
		for i, v := range final {
			st.ghost[fmt.Sprintf("$cret%d_%d", len(fv.frames)-1, i)] = v
		}
		// the closure frame index when inlineClosureVals reads it is len(fv.frames) after pop
		fr.retStates = append(fr.retStates, st.clone())
		st.dead = true
		st.pc = "false"
		return
	}
	fv.checkPost(st, final, at)
	fr.retStates = append(fr.retStates, st.clone())
	st.dead = true
	st.pc = "false"
}

func (fv *FuncVerifier) assign2(st *State, o *types.Var, term string) {
	if fv.boxed[o] {
		h := fv.eng.sc.ptrHeap(o.Type())
		if _, ok := st.vars[o]; !ok {
			fv.declareVar(st, o, term)
			return
		}
		st.heaps[h] = "(store " + fv.heapOf(st, h) + " " + st.vars[o] + " " + term + ")"
		return
	}
	st.vars[o] = term
}

// ---------------- loops ----------------

func (fv *FuncVerifier) nextLoopOrd() int {
	k := fv.loopOrd
	fv.loopOrd++
	return k
}

type loopParts struct {
	ord    int
	label  string
	cond   func(st *State) string // returns guard term
	body   func(st *State)
	post   func(st *State)
	pos    token.Pos
	idxVar string // name usable in invariants for the hidden counter
	afterHavoc func(st *State)
}

func (fv *FuncVerifier) execFor(st *State, s *ast.ForStmt, label string) {
	ord := fv.nextLoopOrd()
	if s.Init != nil {
		fv.execStmt(st, s.Init)
	}
	lp := &loopParts{ord: ord, label: label, pos: s.Pos()}
	lp.cond = func(st *State) string {
		if s.Cond == nil {
			return "true"
		}
		return fv.eval(st, s.Cond).T
	}
	lp.body = func(st *State) { fv.execBlock(st, s.Body.List) }
	lp.post = func(st *State) {
		if s.Post != nil {
			fv.execStmt(st, s.Post)
		}
	}
	fv.execLoop(st, lp)
}

func (fv *FuncVerifier) execRange(st *State, s *ast.RangeStmt, label string) {
	ord := fv.nextLoopOrd()
	sc := fv.eng.sc
	xt := fv.typeOf(s.X)
	x := fv.eval(st, s.X)
	x.T = fv.nameTerm(st, x.T, sc.sortOf(xt))
	var n string
	var elemAt func(st *State, i string) Val
	switch u := xt.Underlying().(type) {
	case *types.Slice:
		n = sLen(x.T)
		h := sc.sliceHeap(u.Elem())
		elemAt = func(st *State, i string) Val {
			v := "(select (select " + fv.heapOf(st, h) + " " + sRef(x.T) + ") " + plus(sOff(x.T), i) + ")"
			fv.assumeInv(st, v, u.Elem())
			return Val{T: v, Ty: u.Elem()}
		}
	case *types.Array:
		n = strconv.FormatInt(u.Len(), 10)
		elemAt = func(st *State, i string) Val {
			v := "(select " + x.T + " " + i + ")"
			fv.assumeInv(st, v, u.Elem())
			return Val{T: v, Ty: u.Elem()}
		}
	case *types.Basic:
		if isInteger(xt) {
			n = x.T
			elemAt = nil
		} else {
			fv.unsupported("range over string")
			fv.rangeHavoc(st, s)
			return
		}
	default:
		fv.unsupported("range over " + xt.String())
		fv.rangeHavoc(st, s)
		return
	}
	// counter variable
	cname := fmt.Sprintf("idx%d", ord)
	st.ghost[cname] = Val{T: "0", Sort: "Int"}
	st.ghost["idx"] = st.ghost[cname]
	var keyObj, valObj *types.Var
	if id, ok := s.Key.(*ast.Ident); ok && id.Name != "_" {
		keyObj, _ = fv.info().ObjectOf(id).(*types.Var)
	} else if s.Key != nil {
		if _, isId := s.Key.(*ast.Ident); !isId {
			fv.unsupported("range with non-identifier key")
		}
	}
	if id, ok := s.Value.(*ast.Ident); ok && id.Name != "_" {
		valObj, _ = fv.info().ObjectOf(id).(*types.Var)
	}
	if keyObj != nil {
		// invariants may mention the key variable: it equals the counter at the loop head
		fv.declareVar(st, keyObj, "0")
	}
	if valObj != nil && s.Tok == token.DEFINE {
		fv.declareVar(st, valObj, sc.zero(valObj.Type()))
	}
	lp := &loopParts{ord: ord, label: label, pos: s.Pos(), idxVar: cname}
	lp.cond = func(st *State) string {
		return "(< " + st.ghost[cname].T + " " + n + ")"
	}
	lp.body = func(st *State) {
		i := st.ghost[cname].T
		if keyObj != nil {
			fv.assign2(st, keyObj, i)
		}
		if valObj != nil && elemAt != nil {
			fv.assign2(st, valObj, elemAt(st, i).T)
		}
		fv.execBlock(st, s.Body.List)
	}
	lp.post = func(st *State) {
		c := st.ghost[cname]
		nv := Val{T: "(+ " + c.T + " 1)", Sort: "Int"}
		st.ghost[cname] = nv
		st.ghost["idx"] = nv
		if keyObj != nil {
			// at the loop head the key variable mirrors the counter
			fv.assign2(st, keyObj, nv.T)
		}
	}
	lp.afterHavoc = func(st *State) {
		c := st.ghost[cname]
		st.ghost["idx"] = c
		fv.assume(st, "(<= 0 "+c.T+")")
		if keyObj != nil {
			fv.assign2(st, keyObj, c.T)
		}
	}
	fv.execLoop(st, lp)
	delete(st.ghost, cname)
}

func (fv *FuncVerifier) rangeHavoc(st *State, s *ast.RangeStmt) {
	// unsupported range: havoc everything the body may touch and continue after the loop
	before := st.clone()
	fv.quiet++
	saveAssumes := len(fv.assumes)
	tmp := st.clone()
	lc := &loopCtx{}
	fv.loops = append(fv.loops, lc)
	fv.execBlock(tmp, s.Body.List)
	fv.loops = fv.loops[:len(fv.loops)-1]
	fv.assumes = fv.assumes[:saveAssumes]
	if len(fv.atags) > saveAssumes {
		fv.atags = fv.atags[:saveAssumes]
	}
	fv.quiet--
	fv.havocDiff(st, before, append([]*State{tmp}, append(lc.breaks, lc.conts...)...))
}

// havocDiff havocs in st every variable / heap whose term differs between before and any of after.
func (fv *FuncVerifier) havocDiff(st *State, before *State, after []*State) (vars []types.Object, heaps []string) {
	changedV := map[types.Object]bool{}
	changedH := map[string]bool{}
	changedG := map[string]bool{}
	allocCh := false
	for _, a := range after {
		if a == nil {
			continue
		}
		for k, t := range a.vars {
			if bt, ok := before.vars[k]; ok && bt != t {
				changedV[k] = true
			}
		}
		for h, t := range a.heaps {
			if bt, ok := before.heaps[h]; !ok || bt != t {
				if ok || t != fv.entryHeap(h) {
					changedH[h] = true
				}
			}
		}
		for g, v := range a.ghost {
			if bv, ok := before.ghost[g]; ok && bv.T != v.T {
				changedG[g] = true
			}
		}
		if a.alloc != before.alloc {
			allocCh = true
		}
	}
	// (sorted: the numbering of fresh names must not depend on map iteration order -- the text of a query, and with
	// it the solver's luck, would differ from run to run)
	for _, k := range sortedObjs(changedV) {
		if fv.boxed[k] {
			continue
		}
		st.vars[k] = fv.freshTyped(k.Name(), k.Type(), st)
		vars = append(vars, k)
	}
	for _, h := range sortedKeys(changedH) {
		fv.heapOf(st, h)
		st.heaps[h] = fv.fresh(h, fv.eng.sc.heaps[h])
		heaps = append(heaps, h)
	}
	defer func() {
		for _, h := range heaps {
			fv.heapClosure(h, st.heaps[h], st.alloc)
		}
	}()
	for _, g := range sortedKeys(changedG) {
		if strings.HasPrefix(g, "$") {
			continue
		}
		v := before.ghost[g]
		st.ghost[g] = Val{T: fv.fresh(g, v.sortIn(fv.eng.sc)), Ty: v.Ty, Sort: v.Sort}
		if fv.eng.contracts.GhostVars[g] == "nat" {
			fv.assumeGlobal("(>= " + st.ghost[g].T + " 0)")
		}
	}
	if allocCh {
		na := fv.fresh("alloc", "Int")
		fv.assume(st, "(>= "+na+" "+before.alloc+")")
		st.alloc = na
	}
	return
}

func (fv *FuncVerifier) entryHeap(h string) string {
	if fv.entry != nil {
		return fv.entry.heaps[h]
	}
	return ""
}

func (fv *FuncVerifier) execLoop(st *State, lp *loopParts) {
	var spec *LoopSpec
	if fv.contract != nil {
		spec = fv.contract.Loops[lp.ord]
	}
	fv.curPos = lp.pos
	var errs []string
	// 1. invariants on entry
	if spec != nil {
		for i, inv := range spec.Invariants {
			g := fv.ownEnvAt(st, &errs, lp.pos).eval(inv.Expr)
			fv.oblige(st, "inv-entry", fmt.Sprintf("loop %d [%s] %s", lp.ord, clauseName(inv, i), inv.Text), g.T)
		}
	}
	// 2. dry run to find what the loop modifies
	before := st.clone()
	fv.quiet++
	saveAssumes, saveObl := len(fv.assumes), len(fv.obls)
	saveOrd := fv.loopOrd
	saveUns := len(fv.unsupp)
	saveCallOcc, saveSiteOcc := copyIntMap(fv.callOcc), copyIntMap(fv.siteOcc)
	tmp := st.clone()
	lc := &loopCtx{label: lp.label}
	fv.loops = append(fv.loops, lc)
	saveFrames := fv.saveFrameRets()
	c0 := lp.cond(tmp)
	_ = c0
	lp.body(tmp)
	tmp2 := fv.merge(append([]*State{tmp}, lc.conts...))
	if !tmp2.dead {
		lp.post(tmp2)
	}
	fv.loops = fv.loops[:len(fv.loops)-1]
	fv.restoreFrameRets(saveFrames)
	fv.assumes = fv.assumes[:saveAssumes]
	if len(fv.atags) > saveAssumes {
		fv.atags = fv.atags[:saveAssumes]
	}
	fv.obls = fv.obls[:saveObl]
	fv.loopOrd = saveOrd
	fv.unsupp = fv.unsupp[:saveUns]
	fv.callOcc, fv.siteOcc = saveCallOcc, saveSiteOcc
	fv.pendingAsserts = nil
	fv.quiet--
	afters := append([]*State{tmp, tmp2}, lc.breaks...)
	afters = append(afters, lc.conts...)
	afters = append(afters, fv.frameRetStatesSince(saveFrames)...)
	_, heaps := fv.havocDiff(st, before, afters)
	if lp.afterHavoc != nil {
		lp.afterHavoc(st)
	}
	// frame facts for havocked heaps relative to function entry
	for _, h := range heaps {
		fv.assumeLoopFrame(st, h, before)
	}
	if spec == nil && fv.quiet == 0 {
		fv.note(fmt.Sprintf("loop %d has no invariant: state modified by the loop is havocked", lp.ord))
	}
	// 3. assume invariants
	if spec != nil {
		for _, inv := range spec.Invariants {
			g := fv.ownEnvAt(st, &errs, lp.pos).eval(inv.Expr)
			fv.assume(st, g.T)
		}
	}
	head := st.clone()
	// 4. guard
	c := fv.namePC(lp.cond(st))
	bodySt := st.clone()
	bodySt.pc = fv.namePC(and(st.pc, c))
	fv.branch(bodySt)
	exitSt := st
	exitSt.pc = fv.namePC(and(st.pc, not(c)))
	fv.branch(exitSt)
	var decBefore string
	if spec != nil && spec.Decreases != nil {
		decBefore = fv.ownEnvAt(bodySt, &errs, lp.pos).eval(spec.Decreases).T
		if fv.quiet == 0 {
			fv.oblige(bodySt, "decreases-bounded", fmt.Sprintf("loop %d %s", lp.ord, spec.DecText), "(>= "+decBefore+" 0)")
		}
	}
	lc2 := &loopCtx{label: lp.label}
	fv.loops = append(fv.loops, lc2)
	lp.body(bodySt)
	fv.loops = fv.loops[:len(fv.loops)-1]
	// the states that reach the loop head again: the end of the body and every continue. Normally they are merged
	// and the invariants checked once; with "flag splitinv" each is checked on its own (smaller queries).
	ends := []*State{fv.merge(append([]*State{bodySt}, lc2.conts...))}
	if fv.contract != nil && fv.contract.Flags["splitinv"] != "" {
		ends = append([]*State{bodySt}, lc2.conts...)
	}
	for _, endSt := range ends {
		if endSt == nil || endSt.dead {
			continue
		}
		lp.post(endSt)
		if spec != nil {
			for i, inv := range spec.Invariants {
				g := fv.ownEnvAt(endSt, &errs, lp.pos).eval(inv.Expr)
				fv.oblige(endSt, "inv-preserved", fmt.Sprintf("loop %d [%s] %s", lp.ord, clauseName(inv, i), inv.Text), g.T)
			}
			if spec.Decreases != nil {
				decAfter := fv.ownEnvAt(endSt, &errs, lp.pos).eval(spec.Decreases).T
				fv.oblige(endSt, "decreases", fmt.Sprintf("loop %d %s", lp.ord, spec.DecText), "(< "+decAfter+" "+decBefore+")")
			}
		}
	}
	_ = head
	if len(errs) > 0 {
		fv.unsupported("spec errors in loop " + strconv.Itoa(lp.ord) + ": " + strings.Join(errs, "; "))
	}
	m := fv.merge(append([]*State{exitSt}, lc2.breaks...))
	*st = *m
}

// frame bookkeeping for returns that happen inside loop bodies during dry runs
func (fv *FuncVerifier) saveFrameRets() []int {
	out := make([]int, len(fv.frames))
	for i, f := range fv.frames {
		out[i] = len(f.retStates)
	}
	return out
}
func (fv *FuncVerifier) restoreFrameRets(save []int) {
	for i, f := range fv.frames {
		if i < len(save) {
			f.retStates = f.retStates[:save[i]]
		}
	}
}
func (fv *FuncVerifier) frameRetStatesSince(save []int) []*State { return nil }

// assumeLoopFrame: after havocking heap h at a loop head, rows the function may not modify are unchanged
// relative to the loop-entry heap (every store is checked against the modifies clause).
func (fv *FuncVerifier) assumeLoopFrame(st *State, h string, before *State) {
	if fv.modsAny {
		return
	}
	H0 := fv.heapOf(before, h)
	H := st.heaps[h]
	q := fv.qname()
	except := "true"
	var partial []string
	for _, m := range fv.mods {
		if m.heap != h {
			continue
		}
		except = and(except, "(not (= "+q+" "+m.ref+"))")
		if !m.whole && m.lo != "" {
			q2 := fv.qname()
			partial = append(partial, "(forall (("+q2+" Int)) (=> (or (< "+q2+" "+m.lo+") (>= "+q2+" "+m.hi+")) (= (select (select "+H+" "+m.ref+") "+q2+") (select (select "+H0+" "+m.ref+") "+q2+"))))")
		}
	}
	fv.assume(st, "(forall (("+q+" Int)) (=> (and (< "+q+" "+fv.alloc0+") "+except+") (= (select "+H+" "+q+") (select "+H0+" "+q+"))))")
	for _, p := range partial {
		fv.assume(st, p)
	}
}

// flushAsserts proves and then assumes the intermediate assertions attached to call sites of the statement.
func (fv *FuncVerifier) flushAsserts(st *State) {
	if len(fv.pendingAsserts) == 0 || st.dead {
		fv.pendingAsserts = nil
		return
	}
	keys := fv.pendingAsserts
	fv.pendingAsserts = nil
	var errs []string
	for _, key := range keys {
		if cls, ok := fv.contract.AfterLets[key]; ok {
			fv.bindLets(st, cls, fv.curPos)
		}
		for i, cl := range fv.contract.Asserts[key] {
			g := fv.ownEnvAt(st, &errs, fv.curPos).eval(cl.Expr)
			fv.oblige(st, "assert", fmt.Sprintf("after %s [%s] %s", key, clauseName(cl, i), cl.Text), g.T)
			fv.assume(st, g.T)
		}
	}
	if len(errs) > 0 {
		fv.unsupported("spec errors in assert: " + strings.Join(errs, "; "))
	}
}

func copyIntMap(m map[string]int) map[string]int {
	out := make(map[string]int, len(m))
	for k, v := range m {
		out[k] = v
	}
	return out
}

// siteAsserts proves (and then assumes) assertions attached to a statement site.
func (fv *FuncVerifier) siteAsserts(st *State, when, key string, cls []Clause, pos token.Pos) {
	if st.dead {
		return
	}
	var errs []string
	for i, cl := range cls {
		g := fv.ownEnvAt(st, &errs, pos).eval(cl.Expr)
		fv.oblige(st, "assert", fmt.Sprintf("%s %s [%s] %s", when, key, clauseName(cl, i), cl.Text), g.T)
		if !cl.NoAssume {
			fv.assume(st, g.T)
		}
	}
	if len(errs) > 0 {
		fv.unsupported("spec errors in assert at " + key + ": " + strings.Join(errs, "; "))
	}
}

// bindLets evaluates ghost snapshots ("before/after callee#k let name = expr") in the current state and binds
// them as ghost locals (merged like program variables), readable by name in later contract clauses.
func (fv *FuncVerifier) bindLets(st *State, cls []Clause, pos token.Pos) {
	if st.dead {
		return
	}
	var errs []string
	for _, cl := range cls {
		var g Val
		if cl.Index != "" {
			// let name[j] = e(j): a fresh sequence with  forall j. name[j] == e(j)  in the current state
			fv.nfresh++
			q := fmt.Sprintf("%s_d%d", cl.Index, fv.nfresh)
			env := fv.ownEnvAt(st, &errs, pos)
			body := env.with(map[string]Val{cl.Index: {T: q, Sort: "Int"}}).eval(cl.Expr)
			es := body.sortIn(fv.eng.sc)
			if es != "Int" && es != "Real" && es != "Bool" && es != "Rank" {
				fv.unsupported("let " + cl.Name + "[...]: element sort " + es + " not supported")
				continue
			}
			arr := fv.fresh("gseq_"+cl.Name, "(Array Int "+es+")")
			fv.assume(st, "(forall (("+q+" Int)) (! (= (select "+arr+" "+q+") "+body.T+") :pattern ((select "+arr+" "+q+"))))")
			g = Val{T: arr, Sort: "(Array Int " + es + ")"}
		} else {
			g = fv.ownEnvAt(st, &errs, pos).eval(cl.Expr)
		}
		ty := g.Ty
		if ty == nil {
			ty = types.Typ[types.Int]
			if g.Sort == "Bool" {
				ty = types.Typ[types.Bool]
			}
			switch g.Sort {
			case "(Array Int Int)":
				// ghost sequence: carried as an (unbounded) array of int so that merges and loop havoc keep its sort
				ty = types.NewArray(types.Typ[types.Int], 1<<40)
			case "(Array Int Real)":
				ty = types.NewArray(types.Typ[types.Float64], 1<<40)
			case "(Array Int Bool)":
				ty = types.NewArray(types.Typ[types.Bool], 1<<40)
			case "Real":
				ty = types.Typ[types.Float64]
			case "Rank":
				ty = rankType
			case "(Array Int Rank)":
				ty = types.NewArray(rankType, 1<<40)
			}
		}
		if fv.letVars == nil {
			fv.letVars = map[string]*types.Var{}
		}
		o := fv.letVars[cl.Name]
		if o == nil {
			o = types.NewVar(token.NoPos, fv.pkg.Types, cl.Name, ty)
			fv.letVars[cl.Name] = o
		}
		fv.declareVar(st, o, g.T)
	}
	if len(errs) > 0 {
		fv.unsupported("spec errors in let: " + strings.Join(errs, "; "))
	}
}

func sortedKeys(m map[string]bool) []string {
	ks := make([]string, 0, len(m))
	for k := range m {
		ks = append(ks, k)
	}
	sort.Strings(ks)
	return ks
}

func sortedObjs(m map[types.Object]bool) []types.Object {
	ks := make([]types.Object, 0, len(m))
	for k := range m {
		ks = append(ks, k)
	}
	sort.Slice(ks, func(i, j int) bool {
		if ks[i].Name() != ks[j].Name() {
			return ks[i].Name() < ks[j].Name()
		}
		return ks[i].Pos() < ks[j].Pos()
	})
	return ks
}
