package main

// Mapping of Go types to SMT sorts, datatype declarations, type invariants.

import (
	"go/token"
	"fmt"
	"go/types"
	"sort"
	"strings"
)

// Sorts used:
//   Int     all integer kinds, pointers, interfaces, maps, chans, funcs (refs)
//   Bool    bool
//   Real    floats
//   Str     strings (uninterpreted sort with gs.len / gs.at)
//   Slice   (mkSlice ref off len cap)
//   (Array Int S)  Go arrays [N]T (value semantics)
//   T_<name>      struct datatypes

type sortCtx struct {
	structs    map[string]*types.Struct // sort name -> struct
	structOrd  []string                 // declaration order (dependencies first)
	structName map[*types.Struct]string
	heaps      map[string]string // heap name -> SMT sort of the heap
	tkeys      map[string]types.Type
	mapKeySort map[string]string
}

func newSortCtx() *sortCtx {
	return &sortCtx{structs: map[string]*types.Struct{}, structName: map[*types.Struct]string{}, heaps: map[string]string{}, tkeys: map[string]types.Type{}, mapKeySort: map[string]string{}}
}

func sanitize(s string) string {
	var b strings.Builder
	for _, r := range s {
		switch {
		case r >= 'a' && r <= 'z', r >= 'A' && r <= 'Z', r >= '0' && r <= '9', r == '_':
			b.WriteRune(r)
		case r == '.', r == '/':
			b.WriteByte('_')
		case r == '*':
			b.WriteString("P")
		case r == '[':
			b.WriteString("L")
		case r == ']':
			b.WriteString("R")
		default:
			b.WriteByte('_')
		}
	}
	return b.String()
}

// typeKey gives a stable identifier for a Go type (used in heap names).
func typeKey(t types.Type) string {
	switch t := t.(type) {
	case *types.Named:
		o := t.Obj()
		if o.Pkg() != nil {
			return sanitize(o.Pkg().Name() + "_" + o.Name())
		}
		return sanitize(o.Name())
	case *types.Alias:
		return typeKey(types.Unalias(t))
	case *types.Basic:
		switch t.Kind() {
		case types.Uint8:
			return "u8"
		case types.Int32: // rune
			return "i32"
		}
		return sanitize(t.Name())
	case *types.Slice:
		return "S" + typeKey(t.Elem())
	case *types.Array:
		return fmt.Sprintf("A%d%s", t.Len(), typeKey(t.Elem()))
	case *types.Pointer:
		return "P" + typeKey(t.Elem())
	case *types.Map:
		return "M" + typeKey(t.Key()) + "_" + typeKey(t.Elem())
	case *types.Struct:
		return "anonstruct" + sanitize(fmt.Sprint(t.NumFields()))
	case *types.Interface:
		return "iface"
	case *types.Signature:
		return "func"
	case *types.Chan:
		return "chan"
	}
	return sanitize(t.String())
}

func isInteger(t types.Type) bool {
	b, ok := t.Underlying().(*types.Basic)
	return ok && b.Info()&types.IsInteger != 0
}
func isUnsigned(t types.Type) bool {
	b, ok := t.Underlying().(*types.Basic)
	return ok && b.Info()&types.IsUnsigned != 0
}
func isBool(t types.Type) bool {
	b, ok := t.Underlying().(*types.Basic)
	return ok && b.Info()&types.IsBoolean != 0
}
func isString(t types.Type) bool {
	b, ok := t.Underlying().(*types.Basic)
	return ok && b.Info()&types.IsString != 0
}
func isFloat(t types.Type) bool {
	b, ok := t.Underlying().(*types.Basic)
	return ok && b.Info()&types.IsFloat != 0
}

// intWidth returns bit width and signedness of an integer type (64-bit platform).
func intWidth(t types.Type) (int, bool) {
	b := t.Underlying().(*types.Basic)
	switch b.Kind() {
	case types.Int8:
		return 8, true
	case types.Int16:
		return 16, true
	case types.Int32:
		return 32, true
	case types.Int64, types.Int:
		return 64, true
	case types.Uint8:
		return 8, false
	case types.Uint16:
		return 16, false
	case types.Uint32:
		return 32, false
	case types.Uint64, types.Uint, types.Uintptr:
		return 64, false
	case types.UntypedInt, types.UntypedRune:
		return 0, true
	}
	return 64, true
}

func pow2(w int) string {
	switch w {
	case 8:
		return "256"
	case 16:
		return "65536"
	case 32:
		return "4294967296"
	case 64:
		return "18446744073709551616"
	case 7:
		return "128"
	case 15:
		return "32768"
	case 31:
		return "2147483648"
	case 63:
		return "9223372036854775808"
	}
	panic("pow2")
}

// rankType carries the uninterpreted sort Rank (position of a byte string in lexicographic order) through
// ghost variables, which are typed with Go types.
var rankType = types.NewNamed(types.NewTypeName(token.NoPos, nil, "$Rank", nil), types.Typ[types.Int], nil)

func isRankType(t types.Type) bool {
	n, ok := t.(*types.Named)
	return ok && n.Obj().Name() == "$Rank"
}

func (sc *sortCtx) sortOf(t types.Type) string {
	if t == nil {
		return "Int"
	}
	if isRankType(t) {
		return "Rank"
	}
	switch u := t.Underlying().(type) {
	case *types.Basic:
		switch {
		case u.Info()&types.IsBoolean != 0:
			return "Bool"
		case u.Info()&types.IsInteger != 0:
			return "Int"
		case u.Info()&types.IsFloat != 0:
			return "Real"
		case u.Info()&types.IsString != 0:
			return "Str"
		case u.Kind() == types.UntypedNil:
			return "Int"
		}
		return "Int"
	case *types.Slice:
		return "Slice"
	case *types.Array:
		return "(Array Int " + sc.sortOf(u.Elem()) + ")"
	case *types.Struct:
		return sc.structSort(t, u)
	case *types.Pointer, *types.Interface, *types.Map, *types.Chan, *types.Signature:
		return "Int"
	case *types.Tuple:
		return "Int"
	}
	return "Int"
}

func (sc *sortCtx) structSort(t types.Type, u *types.Struct) string {
	if n, ok := sc.structName[u]; ok {
		return n
	}
	name := "T_" + typeKey(t)
	if _, ok := t.(*types.Named); !ok {
		if a, ok := t.(*types.Alias); ok {
			name = "T_" + typeKey(types.Unalias(a))
		} else {
			name = fmt.Sprintf("T_anon%d", len(sc.structs))
		}
	}
	if old, dup := sc.structs[name]; dup && old != u {
		name = fmt.Sprintf("%s_%d", name, len(sc.structs))
	}
	sc.structName[u] = name
	sc.structs[name] = u
	for i := 0; i < u.NumFields(); i++ {
		if f := u.Field(i); f.Name() == "_" {
			blankNames[f] = fmt.Sprintf("blank%d", i)
		}
	}
	// declare dependencies first
	for i := 0; i < u.NumFields(); i++ {
		sc.sortOf(u.Field(i).Type())
	}
	sc.structOrd = append(sc.structOrd, name)
	return name
}

// blankNames: blank fields are named by their index in the struct (a token.Pos would differ from run to run)
var blankNames = map[*types.Var]string{}

func fieldName(f *types.Var) string {
	if n, ok := blankNames[f]; ok {
		return n
	}
	if f.Name() == "_" {
		// blank fields may repeat inside one struct: name them by position
		return fmt.Sprintf("blank%d", int(f.Pos()))
	}
	return sanitize(f.Name())
}

func (sc *sortCtx) fieldSel(structSort string, f *types.Var) string {
	return structSort + "." + fieldName(f)
}

// decls emits datatype declarations.
func (sc *sortCtx) decls() string {
	var b strings.Builder
	b.WriteString("(declare-sort Rank 0)\n(declare-sort Str 0)\n(declare-fun gs.len (Str) Int)\n(declare-fun gs.at (Str Int) Int)\n")
	b.WriteString("(declare-datatypes ((Slice 0)) (((mkSlice (s.ref Int) (s.off Int) (s.len Int) (s.cap Int)))))\n")
	for _, n := range sc.structOrd {
		u := sc.structs[n]
		fmt.Fprintf(&b, "(declare-datatypes ((%s 0)) (((mk_%s", n, n)
		if u.NumFields() == 0 {
			fmt.Fprintf(&b, " (%s._dummy Int)", n)
		}
		for i := 0; i < u.NumFields(); i++ {
			f := u.Field(i)
			fmt.Fprintf(&b, " (%s %s)", sc.fieldSel(n, f), sc.sortOf(f.Type()))
		}
		b.WriteString("))))\n")
	}
	hs := make([]string, 0, len(sc.heaps))
	for h := range sc.heaps {
		hs = append(hs, h)
	}
	sort.Strings(hs)
	_ = hs
	return b.String()
}

// heap names
func (sc *sortCtx) sliceHeap(elem types.Type) string {
	n := "HS_" + typeKey(elem)
	sc.heaps[n] = "(Array Int (Array Int " + sc.sortOf(elem) + "))"
	sc.tkeys[n] = elem
	return n
}
func (sc *sortCtx) ptrHeap(elem types.Type) string {
	n := "HP_" + typeKey(elem)
	sc.heaps[n] = "(Array Int " + sc.sortOf(elem) + ")"
	sc.tkeys[n] = elem
	return n
}
func (sc *sortCtx) mapHeaps(m *types.Map) (string, string) {
	k := typeKey(m.Key()) + "_" + typeKey(m.Elem())
	v, h := "HMv_"+k, "HMh_"+k
	sc.heaps[v] = "(Array Int (Array " + sc.sortOf(m.Key()) + " " + sc.sortOf(m.Elem()) + "))"
	sc.heaps[h] = "(Array Int (Array " + sc.sortOf(m.Key()) + " Bool))"
	sc.tkeys[v] = m.Elem()
	sc.mapKeySort[v] = sc.sortOf(m.Key())
	return v, h
}

// zero value term of a type
func (sc *sortCtx) zero(t types.Type) string {
	switch u := t.Underlying().(type) {
	case *types.Basic:
		switch {
		case u.Info()&types.IsBoolean != 0:
			return "false"
		case u.Info()&types.IsFloat != 0:
			return "0.0"
		case u.Info()&types.IsString != 0:
			return "gs.empty"
		}
		return "0"
	case *types.Slice:
		return "(mkSlice 0 0 0 0)"
	case *types.Array:
		return sc.constArray(sc.sortOf(t), sc.zero(u.Elem()))
	case *types.Struct:
		n := sc.sortOf(t)
		if u.NumFields() == 0 {
			return "(mk_" + n + " 0)"
		}
		var b strings.Builder
		b.WriteString("(mk_" + n)
		for i := 0; i < u.NumFields(); i++ {
			b.WriteString(" " + sc.zero(u.Field(i).Type()))
		}
		b.WriteString(")")
		return b.String()
	}
	return "0"
}

// typeInv returns constraints every value of the type satisfies.
func (sc *sortCtx) typeInv(term string, t types.Type, depth int) []string {
	if t == nil || depth > 3 || isRankType(t) {
		return nil
	}
	switch u := t.Underlying().(type) {
	case *types.Basic:
		if u.Info()&types.IsInteger != 0 {
			w, signed := intWidth(t)
			if w == 0 {
				return nil
			}
			if signed {
				return []string{fmt.Sprintf("(<= (- %s) %s)", pow2(w-1), term), fmt.Sprintf("(< %s %s)", term, pow2(w-1))}
			}
			return []string{fmt.Sprintf("(<= 0 %s)", term), fmt.Sprintf("(< %s %s)", term, pow2(w))}
		}
		if u.Info()&types.IsString != 0 {
			return []string{fmt.Sprintf("(<= 0 (gs.len %s))", term)}
		}
	case *types.Slice:
		return []string{
			fmt.Sprintf("(<= 0 (s.ref %s))", term), fmt.Sprintf("(<= 0 (s.off %s))", term),
			fmt.Sprintf("(<= 0 (s.len %s))", term), fmt.Sprintf("(<= (s.len %s) (s.cap %s))", term, term),
			fmt.Sprintf("(< (+ (s.off %s) (s.cap %s)) 4611686018427387904)", term, term),
			fmt.Sprintf("(=> (= (s.ref %s) 0) (= (s.cap %s) 0))", term, term),
		}
	case *types.Struct:
		n := sc.sortOf(t)
		var out []string
		for i := 0; i < u.NumFields(); i++ {
			f := u.Field(i)
			out = append(out, sc.typeInv("("+sc.fieldSel(n, f)+" "+term+")", f.Type(), depth+1)...)
		}
		return out
	case *types.Array:
		// small arrays of integers: every element is in range
		if u.Len() <= 32 && isInteger(u.Elem()) {
			var out []string
			for k := int64(0); k < u.Len(); k++ {
				out = append(out, sc.typeInv(fmt.Sprintf("(select %s %d)", term, k), u.Elem(), depth+1)...)
			}
			return out
		}
	case *types.Pointer, *types.Interface, *types.Map, *types.Chan, *types.Signature:
		return []string{fmt.Sprintf("(<= 0 %s)", term)}
	}
	return nil
}

// constArray is the array of the given sort holding elem everywhere. cvc5 accepts "as const" only over values;
// the empty string of the uninterpreted string sort is not one, so string arrays use a declared constant.
func (sc *sortCtx) constArray(sort, elem string) string {
	if elem == "gs.empty" && sort == "(Array Int Str)" {
		return "gs.zeros"
	}
	return "((as const " + sort + ") " + elem + ")"
}
