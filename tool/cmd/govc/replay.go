package main

// Replay of solver counterexamples against the real code.
//
// Scope: plain functions (no receiver) whose parameters are integers, booleans and []byte. The solver
// model's function inputs (and ghost witnesses) are read back with get-value, turned into an in-package
// Go test (injected with `go test -overlay`, nothing is written to /repo), and the test either observes
// the panic (safety obligations) or evaluates the failed postcondition, compiled to Go, on the real
// function's result. Anything outside this scope is reported without replay (no-failing-input-found).

import (
	"encoding/json"
	"fmt"
	"go/ast"
	"go/token"
	"go/types"
	"os"
	"os/exec"
	"path/filepath"
	"regexp"
	"strconv"
	"strings"
)

type rpParam struct {
	name string
	term string
	kind string // int | bool | bytes
	goTy string
}

func replayObligation(repo, verif string, o *Obligation) (string, bool) {
	fv := o.fv
	if fv == nil || fv.decl == nil || fv.decl.Recv != nil || fv.contract.Region != "" || o.queryFile == "" {
		return "", false
	}
	var params []rpParam
	for _, in := range fv.inputs {
		p := rpParam{name: in.Name, term: in.Term}
		switch u := in.Ty.Underlying().(type) {
		case *types.Basic:
			switch {
			case u.Info()&types.IsInteger != 0:
				p.kind, p.goTy = "int", types.TypeString(in.Ty, types.RelativeTo(fv.pkg.Types))
			case u.Info()&types.IsBoolean != 0:
				p.kind, p.goTy = "bool", "bool"
			default:
				return "", false
			}
		case *types.Slice:
			if b, ok := u.Elem().Underlying().(*types.Basic); !ok || b.Kind() != types.Uint8 {
				return "", false
			}
			p.kind, p.goTy = "bytes", "[]byte"
		default:
			return "", false
		}
		params = append(params, p)
	}
	q, err := os.ReadFile(o.queryFile)
	if err != nil {
		return "", false
	}
	base := strings.Replace(string(q), "(get-model)\n", "", 1)
	heap := ""
	if fv.entry != nil {
		heap = fv.entry.heaps["HS_u8"]
	}
	// phase 1: scalars, slice headers, ghost ints
	var terms []string
	for _, p := range params {
		switch p.kind {
		case "int", "bool":
			terms = append(terms, p.term)
		case "bytes":
			terms = append(terms, "(s.ref "+p.term+")", "(s.off "+p.term+")", "(s.len "+p.term+")", "(s.cap "+p.term+")")
		}
	}
	for _, g := range fv.contract.Ghost {
		if v, ok := fv.entry.ghost[g.Name]; ok && ghostSort(g.Kind) == "Int" {
			terms = append(terms, v.T)
		}
	}
	// prefer a small counterexample: bound slice lengths and ghost counters if the query stays satisfiable
	{
		small := strings.Replace(base, "(check-sat)\n", "", 1)
		for _, p := range params {
			if p.kind == "bytes" {
				small += "(assert (<= (s.len " + p.term + ") 48))\n(assert (<= (s.cap " + p.term + ") 64))\n"
				if heap != "" {
					// byte values of the (bounded) input are bytes
					for k := 0; k < 48; k++ {
						e := fmt.Sprintf("(select (select %s (s.ref %s)) (+ (s.off %s) %d))", heap, p.term, p.term, k)
						small += "(assert (and (<= 0 " + e + ") (<= " + e + " 255)))\n"
					}
				}
			}
		}
		for _, g := range fv.contract.Ghost {
			if v, ok := fv.entry.ghost[g.Name]; ok && ghostSort(g.Kind) == "Int" {
				small += "(assert (and (<= (- 64) " + v.T + ") (<= " + v.T + " 64)))\n"
			}
		}
		small += "(check-sat)\n"
		if _, ok := getValues(small, terms[:1]); ok {
			base = small
		}
	}
	var grNames []string
	for name, term := range o.GhostRet {
		grNames = append(grNames, name)
		terms = append(terms, term)
	}
	vals, ok := getValues(base, terms)
	if !ok {
		return "could not read back the model", false
	}
	const maxLen = 4096
	// phase 2: slice contents and ghost sequences
	var terms2 []string
	type sl struct{ ref, off, ln, cp int }
	sls := map[string]sl{}
	for _, p := range params {
		if p.kind != "bytes" {
			continue
		}
		s := sl{atoi(vals["(s.ref "+p.term+")"]), atoi(vals["(s.off "+p.term+")"]), atoi(vals["(s.len "+p.term+")"]), atoi(vals["(s.cap "+p.term+")"])}
		if s.ln > maxLen || s.cp > 1<<20 || s.ln < 0 {
			return fmt.Sprintf("model has a slice of length %d / capacity %d: too large to replay", s.ln, s.cp), false
		}
		sls[p.name] = s
		if heap != "" {
			for i := 0; i < s.ln; i++ {
				terms2 = append(terms2, fmt.Sprintf("(select (select %s %d) %d)", heap, s.ref, s.off+i))
			}
		}
	}
	ghostN := 0
	for _, g := range fv.contract.Ghost {
		if v, ok := fv.entry.ghost[g.Name]; ok && ghostSort(g.Kind) == "Int" {
			if n := atoi(vals[v.T]); n > ghostN && n < 512 {
				ghostN = n
			}
		}
	}
	seqLen := ghostN + 2
	for _, p := range params {
		if p.kind == "bytes" && sls[p.name].ln+2 > seqLen {
			seqLen = sls[p.name].ln + 2
		}
	}
	if seqLen > 600 {
		seqLen = 600
	}
	for _, g := range fv.contract.Ghost {
		if v, ok := fv.entry.ghost[g.Name]; ok && ghostSort(g.Kind) == "(Array Int Int)" {
			for i := 0; i < seqLen; i++ {
				terms2 = append(terms2, fmt.Sprintf("(select %s %d)", v.T, i))
			}
		}
	}
	vals2 := map[string]string{}
	if len(terms2) > 0 {
		vals2, ok = getValues(base, terms2)
		if !ok {
			return "could not read back slice contents", false
		}
	}
	// ---- generate the test ----
	var b strings.Builder
	pkgName := fv.pkg.Types.Name()
	fmt.Fprintf(&b, "package %s\n\nimport (\n\t\"fmt\"\n\t\"testing\"\n)\n\nvar _ = fmt.Sprint\n\n", pkgName)
	fmt.Fprintf(&b, "// generated by govc: replay of the solver counterexample for %s\nfunc TestVerifReplayGenerated(t *testing.T) {\n", o.Name)
	var inputDesc []string
	// shared backing arrays for slices with the same ref
	byRef := map[int][]string{}
	for _, p := range params {
		if p.kind == "bytes" {
			byRef[sls[p.name].ref] = append(byRef[sls[p.name].ref], p.name)
		}
	}
	for _, p := range params {
		switch p.kind {
		case "int":
			fmt.Fprintf(&b, "\tvar %s %s = %s\n", p.name, p.goTy, goInt(vals[p.term]))
			inputDesc = append(inputDesc, p.name+"="+goInt(vals[p.term]))
		case "bool":
			fmt.Fprintf(&b, "\tvar %s bool = %s\n", p.name, vals[p.term])
			inputDesc = append(inputDesc, p.name+"="+vals[p.term])
		case "bytes":
			s := sls[p.name]
			if s.ref == 0 {
				fmt.Fprintf(&b, "\tvar %s []byte\n", p.name)
				inputDesc = append(inputDesc, p.name+"=nil")
				continue
			}
			var bs []string
			for i := 0; i < s.ln; i++ {
				v := vals2[fmt.Sprintf("(select (select %s %d) %d)", heap, s.ref, s.off+i)]
				if v == "" {
					v = "0"
				}
				bs = append(bs, goInt(v))
			}
			group := byRef[s.ref]
			if len(group) > 1 {
				// overlapping inputs: one backing array, slices at their offsets
				arr := fmt.Sprintf("back%d", s.ref)
				if group[0] == p.name {
					lo, hi := 1<<30, 0
					for _, nm := range group {
						x := sls[nm]
						if x.off < lo {
							lo = x.off
						}
						if x.off+x.cp > hi {
							hi = x.off + x.cp
						}
					}
					if hi-lo > 1<<20 {
						return "aliased inputs span too much memory to replay", false
					}
					fmt.Fprintf(&b, "\t%s := make([]byte, %d)\n\tconst %sBase = %d\n", arr, hi-lo, arr, lo)
				}
				fmt.Fprintf(&b, "\t%s := %s[%d-%sBase : %d-%sBase : %d-%sBase]\n", p.name, arr, s.off, arr, s.off+s.ln, arr, s.off+s.cp, arr)
				fmt.Fprintf(&b, "\tcopy(%s, []byte{%s})\n", p.name, strings.Join(bs, ", "))
			} else {
				fmt.Fprintf(&b, "\t%s := make([]byte, %d, %d)\n\tcopy(%s, []byte{%s})\n", p.name, s.ln, s.cp, p.name, strings.Join(bs, ", "))
			}
			inputDesc = append(inputDesc, fmt.Sprintf("%s=[%s] (cap %d)", p.name, strings.Join(bs, " "), s.cp))
		}
	}
	// ghost witnesses
	for _, g := range fv.contract.Ghost {
		v, ok := fv.entry.ghost[g.Name]
		if !ok {
			continue
		}
		switch ghostSort(g.Kind) {
		case "Int":
			fmt.Fprintf(&b, "\tvar g_%s int = %s\n\t_ = g_%s\n", g.Name, goInt(vals[v.T]), g.Name)
		case "(Array Int Int)":
			var es []string
			for i := 0; i < seqLen; i++ {
				x := vals2[fmt.Sprintf("(select %s %d)", v.T, i)]
				if x == "" {
					x = "0"
				}
				es = append(es, goInt(x))
			}
			fmt.Fprintf(&b, "\tg_%s_tab := []int{%s}\n\tg_%s := func(i int) int { if i >= 0 && i < len(g_%s_tab) { return g_%s_tab[i] }; return 0 }\n\t_ = g_%s\n", g.Name, strings.Join(es, ", "), g.Name, g.Name, g.Name, g.Name)
		}
	}
	for _, name := range grNames {
		fmt.Fprintf(&b, "\tvar g_%s int = %s // witness computed by the verifier at the return site\n\t_ = g_%s\n", name, goInt(vals[o.GhostRet[name]]), name)
	}
	// old copies
	for _, p := range params {
		if p.kind == "bytes" {
			fmt.Fprintf(&b, "\told_%s := append([]byte(nil), %s...)\n\t_ = old_%s\n", p.name, p.name, p.name)
		} else {
			fmt.Fprintf(&b, "\told_%s := %s\n\t_ = old_%s\n", p.name, p.name, p.name)
		}
	}
	// call
	sig := fv.fnObj.Type().(*types.Signature)
	var resNames []string
	for i := 0; i < sig.Results().Len(); i++ {
		resNames = append(resNames, fmt.Sprintf("result%d", i))
	}
	var argNames []string
	for _, p := range params {
		argNames = append(argNames, p.name)
	}
	call := fmt.Sprintf("%s(%s)", fv.fnObj.Name(), strings.Join(argNames, ", "))
	b.WriteString("\tpanicked := true\n\tdefer func() {\n\t\tif panicked {\n\t\t\tt.Fatalf(\"REPLAY-VIOLATED the real code panics on the counterexample: %v\", recover())\n\t\t}\n\t}()\n")
	if len(resNames) > 0 {
		fmt.Fprintf(&b, "\t%s := %s\n", strings.Join(resNames, ", "), call)
		for _, r := range resNames {
			fmt.Fprintf(&b, "\t_ = %s\n", r)
		}
	} else {
		fmt.Fprintf(&b, "\t%s\n", call)
	}
	b.WriteString("\tpanicked = false\n")
	// postcondition check
	checked := false
	var extraImports []string
	lastBad := "not a postcondition"
	needUnsafe := false
	if o.Kind == "post" {
		for i, en := range fv.contract.Ensures {
			if !strings.Contains(o.Text, "["+clauseName(en, i)+"] "+en.Text) {
				continue
			}
			tr := &specToGo{fv: fv, params: map[string]string{}, results: resNames, sig: sig}
			for _, p := range params {
				tr.params[p.name] = p.kind
			}
			for _, g := range fv.contract.Ghost {
				tr.ghost = append(tr.ghost, g)
			}
			for _, gr := range fv.contract.GhostRet {
				if ghostSort(gr.Kind) == "Int" {
					tr.ghost = append(tr.ghost, GhostVar{Name: gr.Name, Kind: "int"})
				}
			}
			code := tr.expr(en.Expr, false)
			for ip := range tr.imports {
				extraImports = append(extraImports, ip)
			}
			if tr.needUnsafe {
				needUnsafe = true
			}
			lastBad = tr.bad
			if tr.bad == "" {
				fmt.Fprintf(&b, "\tif !(%s) {\n\t\tt.Fatalf(\"REPLAY-VIOLATED postcondition [%s] is false on the real code's result\")\n\t}\n", code, clauseName(en, i))
				checked = true
			}
		}
	}
	b.WriteString("}\n")
	src := b.String()
	for _, ip := range extraImports {
		if !strings.Contains(src, "\""+ip+"\"") {
			src = strings.Replace(src, "import (\n", "import (\n\t\""+ip+"\"\n", 1)
		}
	}
	if needUnsafe {
		src = strings.Replace(src, "import (\n", "import (\n\t\"unsafe\"\n", 1)
		src += `
// same backing array: the ends of the two capacity windows coincide (or both are empty)
func verifSameArray(a, b []byte) bool {
	if cap(a) == 0 || cap(b) == 0 {
		return cap(a) == 0 && cap(b) == 0 && (a == nil) == (b == nil)
	}
	ea := uintptr(unsafe.Pointer(&a[:cap(a)][0])) + uintptr(cap(a))
	eb := uintptr(unsafe.Pointer(&b[:cap(b)][0])) + uintptr(cap(b))
	return ea == eb
}

func verifSameStart(a, b []byte) bool {
	if cap(a) == 0 || cap(b) == 0 {
		return cap(a) == 0 && cap(b) == 0
	}
	return &a[:cap(a)][0] == &b[:cap(b)][0]
}
`
	}
	b.Reset()
	b.WriteString(src)
	isSafety := o.Kind == "bounds" || o.Kind == "nil" || o.Kind == "div" || o.Kind == "typeassert" || o.Kind == "unreachable-panic"
	if !isSafety && !checked {
		return "the failed clause cannot be compiled to Go (" + lastBad + "); inputs: " + strings.Join(inputDesc, ", "), false
	}
	// ---- run ----
	outDir := filepath.Join(verif, "out", "replays")
	os.MkdirAll(outDir, 0o755)
	testFile := filepath.Join(outDir, "gen_"+sanitize(o.Name)+"_test.go")
	if len(testFile) > 200 {
		testFile = filepath.Join(outDir, fmt.Sprintf("gen_%x_test.go", hashString(o.Name)))
	}
	os.WriteFile(testFile, []byte(b.String()), 0o644)
	pkgDir := filepath.Dir(fv.pkg.Fset.Position(fv.decl.Pos()).Filename)
	replace := map[string]string{filepath.Join(pkgDir, "zz_verif_generated_replay_test.go"): testFile}
	for path, content := range fv.eng.overlay {
		mp := filepath.Join(outDir, "mut_"+filepath.Base(path))
		os.WriteFile(mp, content, 0o644)
		replace[path] = mp
	}
	ovFile := filepath.Join(outDir, "gen_overlay.json")
	js, _ := json.Marshal(map[string]any{"Replace": replace})
	os.WriteFile(ovFile, js, 0o644)
	modfile := prepareModfile(verif, moduleDirOf(pkgDir))
	cmd := exec.Command("go", "test", "-modfile="+modfile, "-overlay", ovFile, "-vet=off", "-count=1", "-timeout", "60s", "-ldflags=-checklinkname=0", "-run", "TestVerifReplayGenerated", ".")
	cmd.Dir = pkgDir
	cmd.Env = append(os.Environ(), "GOFLAGS=-mod=mod", "GOPROXY=off", "GOSUMDB=off", "GOTOOLCHAIN=local")
	out, _ := cmd.CombinedOutput()
	text := string(out)
	summary := "inputs: " + strings.Join(inputDesc, ", ") + "\nreplay test: " + testFile + "\n" + truncate(text, 3000)
	if strings.Contains(text, "REPLAY-VIOLATED") {
		return summary, true
	}
	return summary, false
}

func hashString(s string) uint32 {
	var h uint32 = 2166136261
	for i := 0; i < len(s); i++ {
		h = (h ^ uint32(s[i])) * 16777619
	}
	return h
}

func atoi(s string) int {
	s = strings.TrimSpace(s)
	neg := false
	if strings.HasPrefix(s, "(-") {
		neg = true
		s = strings.TrimSpace(strings.TrimSuffix(strings.TrimPrefix(s, "(-"), ")"))
	}
	n, _ := strconv.Atoi(s)
	if neg {
		return -n
	}
	return n
}

func goInt(s string) string {
	s = strings.TrimSpace(s)
	if strings.HasPrefix(s, "(-") {
		return "-" + strings.TrimSpace(strings.TrimSuffix(strings.TrimPrefix(s, "(-"), ")"))
	}
	if s == "" {
		return "0"
	}
	return s
}

var getValRe = regexp.MustCompile(`^\s*\(?\((.*) ((?:\(- \d+\))|-?\d+|true|false)\)\)?\s*$`)

// getValues re-runs the sat query with (get-value ...) and parses "((term value) ...)".
func getValues(base string, terms []string) (map[string]string, bool) {
	out := map[string]string{}
	if len(terms) == 0 {
		return out, true
	}
	dir := smtDir()
	file := filepath.Join(dir, fmt.Sprintf("getval_%d.smt2", os.Getpid()))
	for start := 0; start < len(terms); start += 400 {
		end := start + 400
		if end > len(terms) {
			end = len(terms)
		}
		var b strings.Builder
		b.WriteString(base)
		for _, t := range terms[start:end] {
			b.WriteString("(get-value (" + t + "))\n")
		}
		os.WriteFile(file, []byte(b.String()), 0o644)
		res, err := exec.Command("z3-new", "-T:30", file).CombinedOutput()
		_ = err
		lines := strings.Split(string(res), "\n")
		if len(lines) == 0 || strings.TrimSpace(lines[0]) != "sat" {
			// the racing solver that said sat may have been another one: try z3
			res, _ = exec.Command("z3", "-T:30", file).CombinedOutput()
			lines = strings.Split(string(res), "\n")
			if len(lines) == 0 || strings.TrimSpace(lines[0]) != "sat" {
				os.Remove(file)
				return nil, false
			}
		}
		k := start
		for _, ln := range lines[1:] {
			ln = strings.TrimSpace(ln)
			if ln == "" || k >= end {
				continue
			}
			// "((term value))"
			t := terms[k]
			inner := strings.TrimSuffix(strings.TrimPrefix(ln, "(("), "))")
			if strings.HasPrefix(inner, t+" ") {
				out[t] = strings.TrimSpace(inner[len(t)+1:])
				k++
			} else if m := getValRe.FindStringSubmatch(ln); m != nil {
				out[t] = m[2]
				k++
			}
		}
	}
	os.Remove(file)
	return out, true
}

// ---------------- spec expression -> Go ----------------

type specToGo struct {
	fv      *FuncVerifier
	params  map[string]string
	results []string
	sig     *types.Signature
	ghost   []GhostVar
	bad     string
	bound   map[string]bool
	nq      int
	imports map[string]bool
	needUnsafe bool
}

func (tr *specToGo) fail(msg string) string {
	if tr.bad == "" {
		tr.bad = msg
	}
	return "false"
}

// expr translates a Boolean/integer spec expression; old=true inside old(...)
func (tr *specToGo) expr(e ast.Expr, old bool) string {
	switch e := e.(type) {
	case *ast.ParenExpr:
		return "(" + tr.expr(e.X, old) + ")"
	case *ast.BasicLit:
		if e.Kind == token.INT || e.Kind == token.CHAR {
			return e.Value
		}
		return tr.fail("literal")
	case *ast.Ident:
		return tr.ident(e.Name, old)
	case *ast.UnaryExpr:
		switch e.Op {
		case token.NOT:
			return "!(" + tr.expr(e.X, old) + ")"
		case token.SUB:
			return "-(" + tr.expr(e.X, old) + ")"
		}
	case *ast.BinaryExpr:
		if e.Op == token.EQL || e.Op == token.NEQ {
			if cx, ok := e.X.(*ast.CallExpr); ok {
				if cy, ok := e.Y.(*ast.CallExpr); ok {
					fx, _ := cx.Fun.(*ast.Ident)
					fy, _ := cy.Fun.(*ast.Ident)
					if fx != nil && fy != nil && fx.Name == fy.Name && (fx.Name == "ref" || fx.Name == "off") && len(cx.Args) == 1 && len(cy.Args) == 1 {
						tr.needUnsafe = true
						fn := map[string]string{"ref": "verifSameArray", "off": "verifSameStart"}[fx.Name]
						r := fn + "(" + tr.expr(cx.Args[0], old) + ", " + tr.expr(cy.Args[0], old) + ")"
						if e.Op == token.NEQ {
							r = "!" + r
						}
						return r
					}
				}
			}
		}
		a, b := tr.expr(e.X, old), tr.expr(e.Y, old)
		switch e.Op {
		case token.LAND, token.LOR, token.LSS, token.LEQ, token.GTR, token.GEQ, token.ADD, token.SUB, token.MUL, token.QUO, token.REM:
			if e.Op == token.ADD || e.Op == token.SUB || e.Op == token.MUL || e.Op == token.QUO || e.Op == token.REM || e.Op == token.LSS || e.Op == token.LEQ || e.Op == token.GTR || e.Op == token.GEQ {
				return "(int(" + a + ") " + e.Op.String() + " int(" + b + "))"
			}
			return "(" + a + " " + e.Op.String() + " " + b + ")"
		case token.EQL, token.NEQ:
			// comparison with nil / errors / ints
			if id, ok := e.Y.(*ast.Ident); ok && id.Name == "nil" {
				return "(" + a + " " + e.Op.String() + " nil)"
			}
			if tr.isIntExpr(e.X) || tr.isIntExpr(e.Y) {
				return "(int(" + a + ") " + e.Op.String() + " int(" + b + "))"
			}
			if tr.isSliceExpr(e.X) || tr.isSliceExpr(e.Y) {
				return tr.fail("slice identity comparison")
			}
			return "(" + a + " " + e.Op.String() + " " + b + ")"
		}
	case *ast.IndexExpr:
		x := tr.expr(e.X, old)
		i := tr.expr(e.Index, old)
		if id, ok := unparen(e.X).(*ast.Ident); ok && tr.isGhostSeq(id.Name) {
			return "g_" + id.Name + "(int(" + i + "))"
		}
		return "int(" + x + "[int(" + i + ")])"
	case *ast.SelectorExpr:
		if id, ok := e.X.(*ast.Ident); ok {
			// package-level identifier (errors etc.)
			for _, imp := range tr.fv.pkg.Types.Imports() {
				if imp.Name() == id.Name {
					if tr.imports == nil {
						tr.imports = map[string]bool{}
					}
					tr.imports[imp.Path()] = true
					return id.Name + "." + e.Sel.Name
				}
			}
			return tr.fail("selector " + id.Name + "." + e.Sel.Name)
		}
	case *ast.CallExpr:
		name := ""
		switch f := e.Fun.(type) {
		case *ast.Ident:
			name = f.Name
		case *ast.SelectorExpr:
			if id, ok := f.X.(*ast.Ident); ok {
				name = id.Name + "." + f.Sel.Name
			}
		}
		switch name {
		case "implies":
			return "(!(" + tr.expr(e.Args[0], old) + ") || (" + tr.expr(e.Args[1], old) + "))"
		case "iff":
			return "((" + tr.expr(e.Args[0], old) + ") == (" + tr.expr(e.Args[1], old) + "))"
		case "old":
			return tr.expr(e.Args[0], true)
		case "len":
			return "len(" + tr.expr(e.Args[0], old) + ")"
		case "forall", "exists":
			id, ok := e.Args[0].(*ast.Ident)
			if !ok {
				return tr.fail("quantifier")
			}
			if tr.bound == nil {
				tr.bound = map[string]bool{}
			}
			tr.bound[id.Name] = true
			lo, hi := tr.expr(e.Args[1], old), tr.expr(e.Args[2], old)
			body := tr.expr(e.Args[3], old)
			delete(tr.bound, id.Name)
			if name == "forall" {
				return fmt.Sprintf("func() bool { for %s := int(%s); %s < int(%s); %s++ { if !(%s) { return false } }; return true }()", id.Name, lo, id.Name, hi, id.Name, body)
			}
			return fmt.Sprintf("func() bool { for %s := int(%s); %s < int(%s); %s++ { if %s { return true } }; return false }()", id.Name, lo, id.Name, hi, id.Name, body)
		case "fresh":
			if tr.isSliceExpr(e.Args[0]) {
				x := tr.expr(e.Args[0], old)
				parts := []string{"true"}
				for nm, k := range tr.params {
					if k == "bytes" {
						parts = append(parts, "!verifSameArray("+x+", "+nm+")")
					}
				}
				tr.needUnsafe = true
				return "(" + strings.Join(parts, " && ") + ")"
			}
			return tr.fail("fresh of non-slice")
		case "seqeq", "bytes.Equal":
			return "(string(" + tr.expr(e.Args[0], old) + ") == string(" + tr.expr(e.Args[1], old) + "))"
		case "ite":
			return fmt.Sprintf("func() int { if %s { return int(%s) }; return int(%s) }()", tr.expr(e.Args[0], old), tr.expr(e.Args[1], old), tr.expr(e.Args[2], old))
		}
		// spec macro: substitute
		if sf, ok := tr.fv.eng.contracts.Specs[name]; ok && len(sf.Params) == len(e.Args) {
			sub := map[string]ast.Expr{}
			for i, p := range sf.Params {
				sub[p.Name] = e.Args[i]
			}
			return tr.expr(substIdents(sf.Body, sub), old)
		}
		return tr.fail("spec function " + name)
	}
	return tr.fail(fmt.Sprintf("%T", e))
}

func substIdents(e ast.Expr, sub map[string]ast.Expr) ast.Expr {
	switch x := e.(type) {
	case *ast.Ident:
		if r, ok := sub[x.Name]; ok {
			return &ast.ParenExpr{X: r}
		}
		return x
	case *ast.ParenExpr:
		return &ast.ParenExpr{X: substIdents(x.X, sub)}
	case *ast.UnaryExpr:
		return &ast.UnaryExpr{Op: x.Op, X: substIdents(x.X, sub)}
	case *ast.BinaryExpr:
		return &ast.BinaryExpr{Op: x.Op, X: substIdents(x.X, sub), Y: substIdents(x.Y, sub)}
	case *ast.IndexExpr:
		return &ast.IndexExpr{X: substIdents(x.X, sub), Index: substIdents(x.Index, sub)}
	case *ast.CallExpr:
		n := &ast.CallExpr{Fun: x.Fun}
		for i, a := range x.Args {
			// quantifier variables shadow
			if id, ok := x.Fun.(*ast.Ident); ok && (id.Name == "forall" || id.Name == "exists") && i == 0 {
				n.Args = append(n.Args, a)
				continue
			}
			n.Args = append(n.Args, substIdents(a, sub))
		}
		return n
	case *ast.SelectorExpr:
		return x
	}
	return e
}

func (tr *specToGo) isGhostSeq(name string) bool {
	for _, g := range tr.ghost {
		if g.Name == name && ghostSort(g.Kind) == "(Array Int Int)" {
			return true
		}
	}
	return false
}

func (tr *specToGo) isIntExpr(e ast.Expr) bool {
	switch x := e.(type) {
	case *ast.BasicLit:
		return true
	case *ast.ParenExpr:
		return tr.isIntExpr(x.X)
	case *ast.BinaryExpr:
		return x.Op == token.ADD || x.Op == token.SUB || x.Op == token.MUL || x.Op == token.QUO || x.Op == token.REM
	case *ast.IndexExpr:
		return true
	case *ast.CallExpr:
		if id, ok := x.Fun.(*ast.Ident); ok {
			return id.Name == "len" || id.Name == "ite"
		}
	case *ast.Ident:
		if tr.bound[x.Name] {
			return true
		}
		if tr.params[x.Name] == "int" {
			return true
		}
		for _, g := range tr.ghost {
			if g.Name == x.Name && ghostSort(g.Kind) == "Int" {
				return true
			}
		}
		if i := tr.resultIndex(x.Name); i >= 0 {
			return isInteger(tr.sig.Results().At(i).Type())
		}
	}
	return false
}

func (tr *specToGo) isSliceExpr(e ast.Expr) bool {
	switch x := e.(type) {
	case *ast.ParenExpr:
		return tr.isSliceExpr(x.X)
	case *ast.Ident:
		if tr.params[x.Name] == "bytes" {
			return true
		}
		if i := tr.resultIndex(x.Name); i >= 0 {
			_, ok := tr.sig.Results().At(i).Type().Underlying().(*types.Slice)
			return ok
		}
	case *ast.CallExpr:
		if id, ok := x.Fun.(*ast.Ident); ok && id.Name == "old" && len(x.Args) == 1 {
			return tr.isSliceExpr(x.Args[0])
		}
	}
	return false
}

func (tr *specToGo) resultIndex(name string) int {
	n := tr.sig.Results().Len()
	if name == "result" && n >= 1 {
		return 0
	}
	for i := 0; i < n; i++ {
		if name == fmt.Sprintf("result%d", i) || (tr.sig.Results().At(i).Name() != "" && tr.sig.Results().At(i).Name() == name) {
			return i
		}
	}
	if name == "err" && n >= 1 && isErrorType(tr.sig.Results().At(n-1).Type()) {
		return n - 1
	}
	return -1
}

func (tr *specToGo) ident(name string, old bool) string {
	switch name {
	case "true", "false", "nil":
		return name
	}
	if tr.bound[name] {
		return name
	}
	if _, ok := tr.params[name]; ok {
		// in postconditions parameter names denote entry values; heap reads of slices are current unless old
		if old || tr.params[name] != "bytes" {
			return "old_" + name
		}
		return name
	}
	for _, g := range tr.ghost {
		if g.Name == name {
			return "g_" + name
		}
	}
	if i := tr.resultIndex(name); i >= 0 {
		return tr.results[i]
	}
	// package-level identifier of the function's own package (sentinel errors, constants)
	if o := tr.fv.pkg.Types.Scope().Lookup(name); o != nil {
		switch o.(type) {
		case *types.Var, *types.Const:
			return name
		}
	}
	return tr.fail("identifier " + name)
}
