package main

// Replay of solver counterexamples against the real code (go test -overlay with an in-package test).

func replayObligation(repo, verif string, o *Obligation) (string, bool) {
	return "", false
}
