package main

// Contract sidecar files: comment-only Go files (//go:build verif) holding //@ directives.

import (
	"fmt"
	"go/ast"
	"go/parser"
	"os"
	"regexp"
	"strconv"
	"strings"
)

type Clause struct {
	Name string
	Text string
	Expr ast.Expr
	NoAssume bool // proved but not assumed afterwards ("check")
	Index string // let name[Index] = expr : ghost sequence defined pointwise (a definitional extension)
}

type GhostVar struct {
	Name string
	Kind string // int, bool, seq, seqseq, slice
}

type LoopSpec struct {
	Invariants []Clause
	Decreases  ast.Expr
	DecText    string
}

type SpecFunc struct {
	Name   string
	Params []GhostVar // kind holds a Go-ish type name: int, bool, seq, bytes ([]byte), etc.
	Ret    string
	Body   ast.Expr
	Text   string
	Opaque bool   // pred: uninterpreted symbol + definitional axiom triggered on applications
	Pkg    string // package in whose scope parameter types are resolved
}

type Contract struct {
	Key      string // "Func" or "Recv.Method"
	Pkg      string
	Ghost    []GhostVar
	Requires []Clause
	Ensures  []Clause
	Modifies []Clause
	Loops    map[int]*LoopSpec
	Trusted  bool // contract assumed, body not verified (dependencies only)
	Pure     bool // no heap effects
	NoVerify bool
	Flags    map[string]string
	// ghost arguments at call sites: "callee#k" -> assignments
	CallGhost map[string]map[string]ast.Expr
	// assertions the verifier must prove at labelled points: label -> clauses
	Asserts map[string][]Clause
	Lemmas  []Clause
	File    string
	// ghost results: name, sort kind, defining expression (evaluated at each return site)
	GhostRet []GhostRet
	Reveal   []string // opaque predicates unfolded in every obligation of this function
	Updates  []string // ghost variables the function may change
	Befores  map[string][]Clause // assertions proved right before a call site
	BeforeLets map[string][]Clause // ghost snapshots taken right before a call site (Name = ghost name)
	AfterLets  map[string][]Clause // ghost snapshots taken after the statement containing a call site
	Region   string   // structural path of the verified sub-tree (select#0/case#0 ...); empty = whole body
}

type GhostRet struct {
	Name string
	Kind string
	Expr ast.Expr
	Text string
}

type UFunDecl struct {
	Name string
	Args []string
	Ret  string
	Pkg  string
}

type ContractSet struct {
	ByKey map[string]*Contract // pkgpath + "." + key
	Specs map[string]*SpecFunc // spec functions (global namespace)
	GhostVars map[string]string // global ghost variables: name -> kind
	GhostOrder []string
	UFuns []*UFunDecl
	Files []string
}

func newContractSet() *ContractSet {
	return &ContractSet{ByKey: map[string]*Contract{}, Specs: map[string]*SpecFunc{}, GhostVars: map[string]string{}}
}

// ---- rewriting of ==> and <==> into implies()/iff() calls ----

func topLevelSplit(s string, seps []string) (parts []string, which []string) {
	depth := 0
	start := 0
	i := 0
	for i < len(s) {
		c := s[i]
		switch c {
		case '(', '[', '{':
			depth++
		case ')', ']', '}':
			depth--
		case '\'':
			// char literal
			j := i + 1
			for j < len(s) && s[j] != '\'' {
				if s[j] == '\\' {
					j++
				}
				j++
			}
			i = j + 1
			continue
		case '"':
			j := i + 1
			for j < len(s) && s[j] != '"' {
				if s[j] == '\\' {
					j++
				}
				j++
			}
			i = j + 1
			continue
		}
		if depth == 0 {
			matched := false
			for _, sep := range seps {
				if strings.HasPrefix(s[i:], sep) {
					// "==>" must not be the tail of "<==>"
					if sep == "==>" && i > 0 && s[i-1] == '<' {
						continue
					}
					parts = append(parts, s[start:i])
					which = append(which, sep)
					i += len(sep)
					start = i
					matched = true
					break
				}
			}
			if matched {
				continue
			}
		}
		i++
	}
	parts = append(parts, s[start:])
	return
}

func rwSpec(s string) string {
	// iff (lowest)
	if parts, _ := topLevelSplit(s, []string{"<==>"}); len(parts) > 1 {
		out := rwSpec(parts[len(parts)-1])
		for i := len(parts) - 2; i >= 0; i-- {
			out = "iff(" + rwSpec(parts[i]) + ", " + out + ")"
		}
		return out
	}
	if parts, _ := topLevelSplit(s, []string{"==>"}); len(parts) > 1 {
		out := rwSpec(parts[len(parts)-1])
		for i := len(parts) - 2; i >= 0; i-- {
			out = "implies(" + rwSpec(parts[i]) + ", " + out + ")"
		}
		return out
	}
	// descend into bracket groups
	var b strings.Builder
	i := 0
	for i < len(s) {
		c := s[i]
		if c == '\'' || c == '"' {
			j := i + 1
			for j < len(s) && s[j] != c {
				if s[j] == '\\' {
					j++
				}
				j++
			}
			if j >= len(s) {
				j = len(s) - 1
			}
			b.WriteString(s[i : j+1])
			i = j + 1
			continue
		}
		if c == '(' || c == '[' {
			// find matching
			depth := 0
			j := i
			for j < len(s) {
				if s[j] == '(' || s[j] == '[' || s[j] == '{' {
					depth++
				} else if s[j] == ')' || s[j] == ']' || s[j] == '}' {
					depth--
					if depth == 0 {
						break
					}
				} else if s[j] == '\'' || s[j] == '"' {
					q := s[j]
					j++
					for j < len(s) && s[j] != q {
						if s[j] == '\\' {
							j++
						}
						j++
					}
				}
				j++
			}
			if j >= len(s) {
				b.WriteString(s[i:])
				break
			}
			inner := s[i+1 : j]
			parts, _ := topLevelSplit(inner, []string{","})
			for k := range parts {
				parts[k] = rwSpec(parts[k])
			}
			b.WriteByte(c)
			b.WriteString(strings.Join(parts, ","))
			b.WriteByte(s[j])
			i = j + 1
			continue
		}
		b.WriteByte(c)
		i++
	}
	return b.String()
}

func parseSpecExpr(text string) (ast.Expr, error) {
	rw := rwSpec(strings.TrimSpace(text))
	e, err := parser.ParseExpr(rw)
	if err != nil {
		return nil, fmt.Errorf("spec %q (rewritten %q): %v", text, rw, err)
	}
	return e, nil
}

var letRe = regexp.MustCompile(`^let\s+([A-Za-z_][A-Za-z0-9_]*)(?:\[([A-Za-z_][A-Za-z0-9_]*)\])?\s*=\s*(.*)$`)
var clauseRe = regexp.MustCompile(`^(requires|ensures|modifies|invariant|assert|check|lemma)(\[[A-Za-z0-9_\-\.]+\])?\s+(.*)$`)

func parseGhostList(s string) ([]GhostVar, error) {
	var out []GhostVar
	for _, p := range strings.Split(s, ",") {
		f := strings.SplitN(strings.TrimSpace(p), " ", 2)
		if len(f) != 2 {
			return nil, fmt.Errorf("bad ghost decl %q", p)
		}
		out = append(out, GhostVar{Name: f[0], Kind: strings.TrimSpace(f[1])})
	}
	return out, nil
}

// loadContractFile parses one sidecar file.
func (cs *ContractSet) loadContractFile(path, pkgPath string) error {
	data, err := os.ReadFile(path)
	if err != nil {
		return err
	}
	cs.Files = append(cs.Files, path)
	var lines []string
	for _, ln := range strings.Split(string(data), "\n") {
		t := strings.TrimSpace(ln)
		if !strings.HasPrefix(t, "//@") {
			continue
		}
		t = strings.TrimSpace(strings.TrimPrefix(t, "//@"))
		if strings.HasPrefix(t, "|") && len(lines) > 0 {
			lines[len(lines)-1] += " " + strings.TrimSpace(t[1:])
			continue
		}
		if t == "" || strings.HasPrefix(t, "#") {
			continue
		}
		lines = append(lines, t)
	}
	var cur *Contract
	var dupChecks [][2]*Contract
	for _, t := range lines {
		fail := func(e error) error { return fmt.Errorf("%s: %q: %v", path, t, e) }
		switch {
		case strings.HasPrefix(t, "func "), strings.HasPrefix(t, "extern "):
			key := strings.TrimSpace(t[strings.Index(t, " ")+1:])
			key = strings.NewReplacer("(", "", ")", "", "*", "").Replace(key)
			pkgPath := pkgPath
			isExtern := strings.HasPrefix(t, "extern ")
			if isExtern {
				// extern <import path> <Func or Recv.Method> : assumed contract of a dependency
				f := strings.Fields(key)
				if len(f) != 2 {
					return fail(fmt.Errorf("extern <import-path> <name>"))
				}
				pkgPath, key = f[0], f[1]
			}
			cur = &Contract{Key: key, Pkg: pkgPath, Trusted: isExtern, Befores: map[string][]Clause{}, Loops: map[int]*LoopSpec{}, Flags: map[string]string{}, CallGhost: map[string]map[string]ast.Expr{}, Asserts: map[string][]Clause{}, File: path}
			if prev, dup := cs.ByKey[pkgPath+"."+key]; dup {
				if !isExtern || prev.File == path {
					return fail(fmt.Errorf("duplicate contract"))
				}
				// the same dependency may be given its assumed contract by several packages' files (packages that
				// do not import each other): allowed when the contracts are identical, checked after the file is read
				dupChecks = append(dupChecks, [2]*Contract{prev, cur})
			} else {
				cs.ByKey[pkgPath+"."+key] = cur
			}
		case strings.HasPrefix(t, "ufun "):
			// ufun name(kind, kind) kind : uninterpreted ghost function
			rest := strings.TrimSpace(t[5:])
			op, cp := strings.Index(rest, "("), strings.LastIndex(rest, ")")
			if op < 0 || cp < op {
				return fail(fmt.Errorf("ufun name(kinds) kind"))
			}
			u := &UFunDecl{Name: strings.TrimSpace(rest[:op]), Ret: strings.TrimSpace(rest[cp+1:]), Pkg: pkgPath}
			for _, a := range strings.Split(rest[op+1:cp], ",") {
				if strings.TrimSpace(a) != "" {
					u.Args = append(u.Args, strings.TrimSpace(a))
				}
			}
			dupU := false
			for _, o := range cs.UFuns {
				if o.Name == u.Name {
					if o.Ret != u.Ret || strings.Join(o.Args, ",") != strings.Join(u.Args, ",") {
						return fail(fmt.Errorf("ufun %s declared with a different signature in another file", u.Name))
					}
					dupU = true
				}
			}
			if !dupU {
				cs.UFuns = append(cs.UFuns, u)
			}
		case strings.HasPrefix(t, "ghostvar "):
			f := strings.SplitN(strings.TrimSpace(t[9:]), " ", 2)
			if len(f) != 2 {
				return fail(fmt.Errorf("ghostvar name kind"))
			}
			if _, dup := cs.GhostVars[f[0]]; !dup {
				cs.GhostVars[f[0]] = strings.TrimSpace(f[1])
				cs.GhostOrder = append(cs.GhostOrder, f[0])
			}
		case strings.HasPrefix(t, "spec "), strings.HasPrefix(t, "pred "):
			// spec name(p kind, ...) ret = body        (macro)
			// pred name(p kind, ...) = body             (opaque predicate with definitional axiom)
			isPred := strings.HasPrefix(t, "pred ")
			rest := strings.TrimSpace(t[5:])
			eq := strings.Index(rest, " = ")
			if eq < 0 {
				return fail(fmt.Errorf("spec needs ' = '"))
			}
			head, body := rest[:eq], rest[eq+3:]
			op := strings.Index(head, "(")
			cp := strings.LastIndex(head, ")")
			if op < 0 || cp < op {
				return fail(fmt.Errorf("bad spec head"))
			}
			sf := &SpecFunc{Name: strings.TrimSpace(head[:op]), Ret: strings.TrimSpace(head[cp+1:]), Text: body, Opaque: isPred, Pkg: pkgPath}
			if isPred {
				sf.Ret = "bool"
			}
			if strings.TrimSpace(head[op+1:cp]) != "" {
				ps, err := parseGhostList(head[op+1 : cp])
				if err != nil {
					return fail(err)
				}
				sf.Params = ps
			}
			e, err := parseSpecExpr(body)
			if err != nil {
				return fail(err)
			}
			sf.Body = e
			cs.Specs[sf.Name] = sf
		default:
			if cur == nil {
				return fail(fmt.Errorf("directive before any func"))
			}
			switch {
			case strings.HasPrefix(t, "ghost "):
				g, err := parseGhostList(t[6:])
				if err != nil {
					return fail(err)
				}
				cur.Ghost = append(cur.Ghost, g...)
			case strings.HasPrefix(t, "ghostret "):
				// ghostret name kind = expr
				rest := strings.TrimSpace(t[9:])
				eq := strings.Index(rest, "=")
				if eq < 0 {
					return fail(fmt.Errorf("ghostret needs ="))
				}
				f := strings.Fields(rest[:eq])
				if len(f) != 2 {
					return fail(fmt.Errorf("ghostret name kind = expr"))
				}
				e, err := parseSpecExpr(rest[eq+1:])
				if err != nil {
					return fail(err)
				}
				cur.GhostRet = append(cur.GhostRet, GhostRet{Name: f[0], Kind: f[1], Expr: e, Text: rest[eq+1:]})
			case strings.HasPrefix(t, "updates "):
				for _, n := range strings.Split(t[8:], ",") {
					cur.Updates = append(cur.Updates, strings.TrimSpace(n))
				}
			case strings.HasPrefix(t, "region "):
				cur.Region = strings.TrimSpace(t[7:])
			case strings.HasPrefix(t, "reveal "):
				cur.Reveal = append(cur.Reveal, strings.Fields(t[7:])...)
			case t == "trusted":
				cur.Trusted = true
			case t == "pure":
				cur.Pure = true
			case t == "noverify":
				cur.NoVerify = true
			case strings.HasPrefix(t, "flag "):
				f := strings.Fields(t[5:])
				v := "1"
				if len(f) > 1 {
					v = strings.Join(f[1:], " ")
				}
				cur.Flags[f[0]] = v
			case strings.HasPrefix(t, "call "):
				// call callee#k ghost a = e; b = e2
				rest := strings.TrimSpace(t[5:])
				sp := strings.Index(rest, " ghost ")
				if sp < 0 {
					return fail(fmt.Errorf("call needs ghost"))
				}
				site := strings.TrimSpace(rest[:sp])
				if !strings.Contains(site, "#") {
					site += "#0"
				}
				m := map[string]ast.Expr{}
				for _, as := range strings.Split(rest[sp+7:], ";") {
					kv := strings.SplitN(as, "=", 2)
					if len(kv) != 2 {
						return fail(fmt.Errorf("bad ghost assignment"))
					}
					e, err := parseSpecExpr(kv[1])
					if err != nil {
						return fail(err)
					}
					m[strings.TrimSpace(kv[0])] = e
				}
				cur.CallGhost[site] = m
			case strings.HasPrefix(t, "loop "):
				f := strings.SplitN(strings.TrimSpace(t[5:]), " ", 2)
				k, err := strconv.Atoi(f[0])
				if err != nil || len(f) < 2 {
					return fail(fmt.Errorf("loop needs ordinal"))
				}
				ls := cur.Loops[k]
				if ls == nil {
					ls = &LoopSpec{}
					cur.Loops[k] = ls
				}
				rest := strings.TrimSpace(f[1])
				if strings.HasPrefix(rest, "decreases ") {
					e, err := parseSpecExpr(rest[10:])
					if err != nil {
						return fail(err)
					}
					ls.Decreases, ls.DecText = e, rest[10:]
				} else if m := clauseRe.FindStringSubmatch(rest); m != nil && m[1] == "invariant" {
					e, err := parseSpecExpr(m[3])
					if err != nil {
						return fail(err)
					}
					ls.Invariants = append(ls.Invariants, Clause{Name: strings.Trim(m[2], "[]"), Text: m[3], Expr: e})
				} else {
					return fail(fmt.Errorf("bad loop directive"))
				}
			case strings.HasPrefix(t, "before "):
				f := strings.SplitN(strings.TrimSpace(t[7:]), " ", 2)
				if len(f) < 2 {
					return fail(fmt.Errorf("bad before"))
				}
				if !strings.Contains(f[0], "#") {
					f[0] += "#0"
				}
				if lm := letRe.FindStringSubmatch(strings.TrimSpace(f[1])); lm != nil {
					e, err := parseSpecExpr(lm[3])
					if err != nil {
						return fail(err)
					}
					if cur.BeforeLets == nil {
						cur.BeforeLets = map[string][]Clause{}
					}
					cur.BeforeLets[f[0]] = append(cur.BeforeLets[f[0]], Clause{Name: lm[1], Index: lm[2], Text: lm[3], Expr: e})
					continue
				}
				m := clauseRe.FindStringSubmatch(strings.TrimSpace(f[1]))
				if m == nil || (m[1] != "assert" && m[1] != "check") {
					return fail(fmt.Errorf("before needs assert or check"))
				}
				e, err := parseSpecExpr(m[3])
				if err != nil {
					return fail(err)
				}
				// "check" is proved like "assert" but NOT assumed afterwards (for clauses that are known not to hold)
				cur.Befores[f[0]] = append(cur.Befores[f[0]], Clause{Name: strings.Trim(m[2], "[]"), Text: m[3], Expr: e, NoAssume: m[1] == "check"})
			case strings.HasPrefix(t, "at "), strings.HasPrefix(t, "after "):
				// after callee#k assert expr  : proved, then assumed, after the statement containing that call
				f := strings.SplitN(strings.TrimSpace(t[strings.Index(t, " ")+1:]), " ", 2)
				if len(f) == 2 && !strings.Contains(f[0], "#") {
					f[0] += "#0"
				}
				if len(f) < 2 {
					return fail(fmt.Errorf("bad at"))
				}
				if lm := letRe.FindStringSubmatch(strings.TrimSpace(f[1])); lm != nil {
					e, err := parseSpecExpr(lm[3])
					if err != nil {
						return fail(err)
					}
					if cur.AfterLets == nil {
						cur.AfterLets = map[string][]Clause{}
					}
					cur.AfterLets[f[0]] = append(cur.AfterLets[f[0]], Clause{Name: lm[1], Index: lm[2], Text: lm[3], Expr: e})
					continue
				}
				m := clauseRe.FindStringSubmatch(strings.TrimSpace(f[1]))
				if m == nil || m[1] != "assert" {
					return fail(fmt.Errorf("at needs assert"))
				}
				e, err := parseSpecExpr(m[3])
				if err != nil {
					return fail(err)
				}
				cur.Asserts[f[0]] = append(cur.Asserts[f[0]], Clause{Name: strings.Trim(m[2], "[]"), Text: m[3], Expr: e})
			default:
				m := clauseRe.FindStringSubmatch(t)
				if m == nil {
					return fail(fmt.Errorf("unknown directive"))
				}
				e, err := parseSpecExpr(m[3])
				if err != nil {
					return fail(err)
				}
				cl := Clause{Name: strings.Trim(m[2], "[]"), Text: m[3], Expr: e}
				switch m[1] {
				case "requires":
					cur.Requires = append(cur.Requires, cl)
				case "ensures":
					cur.Ensures = append(cur.Ensures, cl)
				case "modifies":
					cur.Modifies = append(cur.Modifies, cl)
				case "lemma":
					cur.Lemmas = append(cur.Lemmas, cl)
				default:
					return fail(fmt.Errorf("misplaced %s", m[1]))
				}
			}
		}
	}
	for _, d := range dupChecks {
		if contractSig(d[0]) != contractSig(d[1]) {
			return fmt.Errorf("%s: extern %s.%s differs from the contract given in %s", path, d[1].Pkg, d[1].Key, d[0].File)
		}
	}
	return nil
}

// contractSig renders the assumed part of a contract for comparison.
func contractSig(c *Contract) string {
	var b strings.Builder
	fmt.Fprintf(&b, "pure=%v;", c.Pure)
	for _, cl := range c.Requires {
		b.WriteString("R:" + cl.Text + ";")
	}
	for _, cl := range c.Ensures {
		b.WriteString("E:" + cl.Text + ";")
	}
	for _, cl := range c.Modifies {
		b.WriteString("M:" + cl.Text + ";")
	}
	b.WriteString("U:" + strings.Join(c.Updates, ",") + ";")
	return b.String()
}
