package main

// Property check driver: props/<id>.json -> obligations -> solvers -> classification -> evidence.

import (
	"encoding/json"
	"flag"
	"fmt"
	"os"
	"os/exec"
	"path/filepath"
	"regexp"
	"sort"
	"strconv"
	"strings"
	"time"
)

type PropUnit struct {
	Module string   `json:"module"` // dir under /repo, e.g. "dnsrocks" or "dnsrocks/go-cdb-mods"
	Pkg    string   `json:"pkg"`    // ./dnsdata/rdb
	Funcs  []string `json:"funcs"`
	// Only: function key -> regexp; obligations of that function whose name does not match are not part of
	// this property's claim (the same function may serve several properties with different clauses)
	Only map[string]string `json:"only,omitempty"`
	// Except: obligations of a function (regexp on the obligation name) that belong to ANOTHER property's claim
	Except map[string]string `json:"except,omitempty"`
}

type BoundedSpec struct {
	Name  string `json:"name"`
	What  string `json:"what"`  // contract checked
	Bound string `json:"bound"` // stated bound
	Dir   string `json:"dir"`   // package dir (relative to /repo) receiving the in-package test via overlay
	Test  string `json:"test"`  // test file under /verif/bounded
	Run   string `json:"run"`   // -run regexp
	Thorough string `json:"thorough_env,omitempty"`
	LdFlags bool `json:"ldflags,omitempty"`
}

type PropConfig struct {
	ID          string        `json:"id"`
	Level       string        `json:"level"`
	Units       []PropUnit    `json:"units"`
	Bounded     []BoundedSpec `json:"bounded"`
	Undecided   []string      `json:"undecided_clauses"`
	Assumptions []string      `json:"assumptions"`
	Explanation string        `json:"explanation"`
}

type finding struct {
	kind       string // finding | fixed
	property   string
	obligation string // stem (or prefix ending in *)
	what       string
	bounded    string // bounded stand-in the finding belongs to
	bkind      string // failure kind reported by that stand-in
}

func loadFindings(path string) []finding {
	data, err := os.ReadFile(path)
	if err != nil {
		return nil
	}
	var out []finding
	for _, ln := range strings.Split(string(data), "\n") {
		ln = strings.TrimSpace(ln)
		if ln == "" || strings.HasPrefix(ln, "#") {
			continue
		}
		f := finding{}
		switch {
		case strings.HasPrefix(ln, "finding:"):
			f.kind = "finding"
			ln = strings.TrimSpace(ln[8:])
		case strings.HasPrefix(ln, "fixed:"):
			f.kind = "fixed"
			ln = strings.TrimSpace(ln[6:])
		default:
			continue
		}
		if m := regexp.MustCompile(`property=(\S+)`).FindStringSubmatch(ln); m != nil {
			f.property = m[1]
		}
		if m := regexp.MustCompile(`obligation=(\S+)`).FindStringSubmatch(ln); m != nil {
			f.obligation = m[1]
		}
		if m := regexp.MustCompile(`bounded=(\S+)`).FindStringSubmatch(ln); m != nil {
			f.bounded = m[1]
		}
		if m := regexp.MustCompile(`kind=(\S+)`).FindStringSubmatch(ln); m != nil {
			f.bkind = m[1]
		}
		if i := strings.Index(ln, "what="); i >= 0 {
			f.what = ln[i+5:]
		}
		out = append(out, f)
	}
	return out
}

func stem(name string) string {
	if i := strings.LastIndex(name, "#"); i >= 0 {
		return name[:i]
	}
	return name
}

// family: for safety obligations the family is func/kind (so a changed index expression stays in it)
func family(o *Obligation) string {
	switch o.Kind {
	case "bounds", "nil", "div", "typeassert", "unreachable-panic", "frame", "lock", "lock-balance":
		return o.Func + "/" + o.Kind
	}
	return stem(o.Name)
}

type baseline struct {
	Stems    map[string]bool `json:"-"`
	Families map[string]bool `json:"-"`
	List     []string        `json:"discharged_stems"`
	Fams     []string        `json:"families"`
	Funcs    []string        `json:"functions"`
}

func (b *baseline) hasFunc(f string) bool {
	for _, x := range b.Funcs {
		if x == f {
			return true
		}
	}
	return false
}

func loadBaseline(path string) *baseline {
	b := &baseline{Stems: map[string]bool{}, Families: map[string]bool{}}
	data, err := os.ReadFile(path)
	if err != nil {
		return nil
	}
	if json.Unmarshal(data, b) != nil {
		return nil
	}
	for _, s := range b.List {
		b.Stems[s] = true
	}
	for _, s := range b.Fams {
		b.Families[s] = true
	}
	return b
}

func cmdCheck(args []string) {
	fs := flag.NewFlagSet("check", flag.ExitOnError)
	prop := fs.String("prop", "", "property id")
	tier := fs.String("tier", "quick", "quick|thorough")
	verif := fs.String("verif", "/verif", "verif dir")
	repo := fs.String("repo", "/repo", "repo root")
	writeBase := fs.Bool("write-baseline", false, "record discharged obligation stems as baseline")
	verbose := fs.Bool("v", false, "verbose")
	sub := fs.String("sub", "", "mutation path|old|new (selftest)")
	noEvidence := fs.Bool("no-evidence", false, "do not write evidence (selftest)")
	fs.Parse(args)
	start := time.Now()
	if t := os.Getenv("VERIF_TIER"); t != "" && *tier == "" {
		*tier = t
	}
	seed := 0
	if s := os.Getenv("VERIF_SEED"); s != "" {
		seed, _ = strconv.Atoi(s)
	}
	data, err := os.ReadFile(filepath.Join(*verif, "props", *prop+".json"))
	if err != nil {
		fmt.Fprintln(os.Stderr, "props:", err)
		os.Exit(2)
	}
	var cfg PropConfig
	if err := json.Unmarshal(data, &cfg); err != nil {
		fmt.Fprintln(os.Stderr, "props json:", err)
		os.Exit(2)
	}
	os.Setenv("GOVC_OUT", filepath.Join(*verif, "out"))
	timeout := 15
	if *tier == "thorough" {
		timeout = 90
	}
	// group units by module
	byMod := map[string][]PropUnit{}
	var mods []string
	for _, u := range cfg.Units {
		if _, ok := byMod[u.Module]; !ok {
			mods = append(mods, u.Module)
		}
		byMod[u.Module] = append(byMod[u.Module], u)
	}
	var all []*Obligation
	var fvs []*FuncVerifier
	var engineFaults []string
	preludes := map[*FuncVerifier]string{}
	for _, mod := range mods {
		eng := newEngine(filepath.Join(*repo, mod))
		if *sub != "" {
			parts := strings.SplitN(*sub, "|", 3)
			if len(parts) == 3 {
				p := parts[0]
				if !strings.HasPrefix(p, "/") {
					p = filepath.Join(*repo, p)
				}
				if strings.HasPrefix(p, filepath.Join(*repo, mod)+"/") {
					in := true
					if mod == "dnsrocks" && strings.HasPrefix(p, filepath.Join(*repo, "dnsrocks/go-cdb-mods")+"/") {
						in = false
					}
					if in {
						if err := eng.addSub(p + "|" + parts[1] + "|" + parts[2]); err != nil {
							fmt.Fprintln(os.Stderr, "sub:", err)
							os.Exit(2)
						}
					}
				}
			}
		}
		var pats []string
		seen := map[string]bool{}
		for _, u := range byMod[mod] {
			if !seen[u.Pkg] {
				seen[u.Pkg] = true
				pats = append(pats, u.Pkg)
			}
		}
		if err := eng.load(pats); err != nil {
			// the tree does not compile / load: not a property verdict
			fmt.Fprintln(os.Stderr, "ENGINE-FAULT load:", err)
			os.Exit(2)
		}
		for _, u := range byMod[mod] {
			var p *pkgT
			for path, pk := range eng.pkgs {
				if strings.HasSuffix(path, strings.TrimPrefix(u.Pkg, ".")) || (u.Pkg == "." ) {
					if p == nil || len(path) < len(p.PkgPath) {
						p = pk
					}
				}
			}
			if p == nil {
				engineFaults = append(engineFaults, "package not loaded: "+u.Pkg)
				continue
			}
			for _, key := range u.Funcs {
				fv, err := eng.verifyFunc(p, key)
				if err != nil {
					// a function under contract disappeared: its obligations cannot be regenerated
					engineFaults = append(engineFaults, err.Error())
					continue
				}
				if re, ok := u.Only[key]; ok {
					rx, err := regexp.Compile(re)
					if err != nil {
						engineFaults = append(engineFaults, "bad filter for "+key+": "+err.Error())
					} else {
						var keep []*Obligation
						for _, o := range fv.obls {
							if rx.MatchString(o.Name) {
								keep = append(keep, o)
							}
						}
						fv.obls = keep
					}
				}
				if re, ok := u.Except[key]; ok {
					rx, err := regexp.Compile(re)
					if err != nil {
						engineFaults = append(engineFaults, "bad filter for "+key+": "+err.Error())
					} else {
						var keep []*Obligation
						for _, o := range fv.obls {
							if !rx.MatchString(o.Name) {
								keep = append(keep, o)
							}
						}
						fv.obls = keep
					}
				}
				fvs = append(fvs, fv)
			}
		}
		prelude := eng.prelude()
		for _, fv := range fvs {
			if _, ok := preludes[fv]; !ok {
				preludes[fv] = prelude
			}
		}
	}
	// vacuity: requires must be satisfiable (cover obligation per function)
	var covers []*Obligation
	for _, fv := range fvs {
		if len(fv.contract.Requires) > 0 {
			c := &Obligation{Name: fv.name + "/cover/requires#0", Kind: "cover", Goal: "true", PC: "true", NAssume: fv.nEntryAssume(), NDecl: len(fv.decls), Func: fv.name, fv: fv, Cover: true}
			covers = append(covers, c)
		}
		all = append(all, fv.obls...)
	}
	// discharge (grouped by prelude)
	groups := map[string][]*Obligation{}
	for _, o := range all {
		groups[preludes[o.fv]] = append(groups[preludes[o.fv]], o)
	}
	for _, c := range covers {
		groups[preludes[c.fv]] = append(groups[preludes[c.fv]], c)
	}
	for pre, obls := range groups {
		dischargeAll(obls, pre, 5, 3, timeout, true)
	}
	vacuous := 0
	for _, c := range covers {
		if c.Status == "unsat" {
			vacuous++
			fmt.Printf("VACUOUS function=%s requires are contradictory\n", c.Func)
		}
	}
	// classification
	base := loadBaseline(filepath.Join(*verif, "baseline", *prop+".json"))
	findings := loadFindings(filepath.Join(*verif, "known_findings.txt"))
	isKnown := func(o *Obligation) *finding {
		for i := range findings {
			f := &findings[i]
			if f.kind != "finding" || f.property != *prop {
				continue
			}
			if f.obligation == stem(o.Name) || (strings.HasSuffix(f.obligation, "*") && strings.HasPrefix(o.Name, strings.TrimSuffix(f.obligation, "*"))) {
				return f
			}
		}
		return nil
	}
	discharged, claimed := 0, 0
	bySolver := map[string]int{}
	solverTime := 0.0
	var violations, undecided, stale []*Obligation
	knownPrinted := map[string]bool{}
	var knownList []string
	for _, o := range all {
		solverTime += o.TimeS
		if o.Status == "unsat" {
			discharged++
			claimed++
			bySolver[o.Solver]++
			continue
		}
		if f := isKnown(o); f != nil {
			if !knownPrinted[f.obligation] {
				knownPrinted[f.obligation] = true
				fmt.Printf("KNOWN-FINDING: property=%s %s (obligation %s)\n", *prop, f.what, f.obligation)
				knownList = append(knownList, f.obligation+": "+f.what)
			}
			continue
		}
		if o.Status == "error" {
			// every solver rejected the query as ill-formed: the contract text no longer type-checks against the
			// source (a field changed its type, a parameter was renamed...). That is no verdict about the code.
			claimed++
			stale = append(stale, o)
			continue
		}
		claimed++
		inBase := base != nil && (base.Stems[stem(o.Name)] || (base.Families[family(o)] && o.Status == "sat"))
		if base != nil && !inBase && o.GlobalWrite && o.Status == "sat" && base.hasFunc(o.Func) {
			// a function that was verified against its frame (no write outside it) now writes package-level state
			inBase = true
		}
		if base != nil && !inBase && o.Kind == "never-returns" && o.Status == "sat" && base.hasFunc(o.Func) {
			// a function under "flag noreturn" that was verified (no reachable return at all) can now return
			inBase = true
		}
		if base == nil {
			inBase = true // no baseline recorded yet: every failure is reported
		}
		if inBase {
			violations = append(violations, o)
		} else {
			undecided = append(undecided, o)
		}
	}
	// missing baseline functions (engine faults) are violations of "obligations regenerate"
	replayDir := filepath.Join(*verif, "out", "replays")
	os.MkdirAll(replayDir, 0o755)
	exit := 0
	for i, o := range violations {
		rp := filepath.Join(replayDir, fmt.Sprintf("%s_%d.txt", *prop, i))
		var b strings.Builder
		fmt.Fprintf(&b, "property: %s\nfailed obligation: %s\nkind: %s\nfunction: %s\nsource: %s\nclause: %s\nsolver verdict: %s (%s, %.2fs)\nquery: %s\n", *prop, o.Name, o.Kind, o.Func, o.Pos, o.Text, o.Status, o.Solver, o.TimeS, o.queryFile)
		suffix := " no-failing-input-found"
		if o.Status == "sat" {
			in := extractInputs(o)
			fmt.Fprintf(&b, "counterexample (function inputs from the solver model):\n%s\n", in)
			if rep, ok := tryReplay(*repo, *verif, o, in); ok {
				fmt.Fprintf(&b, "replay on the real code: CONFIRMED\n%s\n", rep)
				suffix = ""
			} else if rep != "" {
				fmt.Fprintf(&b, "replay on the real code: not confirmed\n%s\n", rep)
			}
		}
		fmt.Fprintf(&b, "solver output:\n%s\n", truncate(o.Model, 6000))
		os.WriteFile(rp, []byte(b.String()), 0o644)
		fmt.Printf("VIOLATION property=%s replay=%s obligation=%s%s\n", *prop, rp, o.Name, suffix)
		exit = 1
	}
	for _, o := range undecided {
		fmt.Printf("UNDECIDED obligation=%s status=%s (not in baseline; no verdict)\n", o.Name, o.Status)
	}
	staleFuncs := map[string]int{}
	for _, o := range stale {
		staleFuncs[o.Func]++
	}
	for f, n := range staleFuncs {
		fmt.Printf("STALE-CONTRACT function=%s obligations=%d: the queries built from its contract and the current source are ill-sorted (every solver rejected them); the contract no longer fits the code -- not decided\n", f, n)
	}
	undecided = append(undecided, stale...)
	for _, ef := range engineFaults {
		fmt.Printf("ENGINE-FAULT %s\n", ef)
	}
	if os.Getenv("GOVC_SLOW") != "" {
		for _, o := range all {
			if o.TimeS > 3 {
				fmt.Printf("SLOW %.1fs %s %s\n", o.TimeS, o.Solver, o.Name)
			}
		}
	}
	// bounded stand-ins
	var boundedEv []map[string]any
	for _, bs := range cfg.Bounded {
		var knownKinds []string
		for _, f := range findings {
			if f.kind == "finding" && f.property == *prop && f.bounded == bs.Name && f.bkind != "" {
				knownKinds = append(knownKinds, f.bkind)
			}
		}
		ev, viol := runBounded(*repo, *verif, *prop, bs, *tier, seed, *sub, knownKinds)
		for _, f := range findings {
			if f.kind == "finding" && f.property == *prop && f.bounded == bs.Name {
				if seen, _ := ev["known_kinds_seen"].([]string); containsStr(seen, f.bkind) {
					fmt.Printf("KNOWN-FINDING: property=%s %s (bounded %s kind %s)\n", *prop, f.what, bs.Name, f.bkind)
					knownList = append(knownList, "bounded "+bs.Name+" kind "+f.bkind+": "+f.what)
				}
			}
		}
		boundedEv = append(boundedEv, ev)
		if viol != "" {
			fmt.Printf("VIOLATION property=%s replay=%s bounded=%s\n", *prop, viol, bs.Name)
			exit = 1
		}
	}
	if *writeBase {
		b := baseline{}
		ss, ff, fn := map[string]bool{}, map[string]bool{}, map[string]bool{}
		for _, o := range all {
			if o.Status == "unsat" {
				ss[stem(o.Name)] = true
				ff[family(o)] = true
			}
			fn[o.Func] = true
		}
		for _, fv := range fvs {
			fn[fv.name] = true // also functions whose body generates no obligation
		}
		for s := range ss {
			b.List = append(b.List, s)
		}
		for s := range ff {
			b.Fams = append(b.Fams, s)
		}
		for s := range fn {
			b.Funcs = append(b.Funcs, s)
		}
		sort.Strings(b.List)
		sort.Strings(b.Fams)
		sort.Strings(b.Funcs)
		out, _ := json.MarshalIndent(b, "", " ")
		os.MkdirAll(filepath.Join(*verif, "baseline"), 0o755)
		os.WriteFile(filepath.Join(*verif, "baseline", *prop+".json"), out, 0o644)
	}
	// obligations of the baseline that were not regenerated at all (function removed/renamed)
	if base != nil {
		have := map[string]bool{}
		for _, o := range all {
			have[stem(o.Name)] = true
		}
		missing := 0
		for s := range base.Stems {
			if !have[s] && (strings.Contains(s, "/post/") || strings.Contains(s, "/inv-")) {
				missing++
				if missing <= 5 {
					fmt.Printf("DEGRADED obligation=%s not regenerated from the current source\n", s)
				}
			}
		}
	}
	// evidence
	if !*noEvidence {
		writeEvidence(*verif, *prop, *tier, seed, &cfg, fvs, all, claimed, discharged, bySolver, solverTime, violations, undecided, knownList, boundedEv, engineFaults, time.Since(start).Seconds(), vacuous)
	}
	if *verbose {
		for _, o := range all {
			fmt.Printf("  %-8s %-7s %6.2fs %s\n", o.Status, o.Solver, o.TimeS, o.Name)
		}
	}
	fmt.Printf("%s: %d obligations, %d discharged, %d violations, %d undecided, %d known findings, %.1fs\n", *prop, claimed, discharged, len(violations), len(undecided), len(knownList), time.Since(start).Seconds())
	if vacuous > 0 || (len(engineFaults) > 0 && exit == 0) {
		// contract/engine fault: never a pass
		if exit == 0 {
			exit = 2
		}
	}
	os.Exit(exit)
}

func truncate(s string, n int) string {
	if len(s) > n {
		return s[:n] + "\n...[truncated]"
	}
	return s
}

func (fv *FuncVerifier) nEntryAssume() int {
	if fv.nEntry > 0 {
		return fv.nEntry
	}
	return len(fv.assumes)
}

func writeEvidence(verif, prop, tier string, seed int, cfg *PropConfig, fvs []*FuncVerifier, all []*Obligation, claimed, discharged int, bySolver map[string]int, solverTime float64, violations, undecided []*Obligation, known []string, bounded []map[string]any, faults []string, wall float64, vacuous int) {
	var funcs []map[string]any
	trusted := map[string]bool{}
	abstracted := map[string]bool{}
	unsupported := map[string]bool{}
	for _, fv := range fvs {
		n, d := 0, 0
		for _, o := range fv.obls {
			n++
			if o.Status == "unsat" {
				d++
			}
		}
		funcs = append(funcs, map[string]any{"function": fv.name, "obligations": n, "discharged": d, "has_contract": !fv.modsAny || len(fv.contract.Ensures) > 0, "requires": len(fv.contract.Requires), "ensures": len(fv.contract.Ensures), "loops_with_invariant": len(fv.contract.Loops)})
		for nn := range fv.notes {
			trusted[nn] = true
		}
		for a := range fv.abstracted {
			abstracted[a] = true
		}
		for _, u := range fv.unsupp {
			unsupported[u] = true
		}
	}
	var tb []string
	tb = append(tb, "SMT solvers z3 4.8.12, z3 5.1.0, cvc5 1.0.3 ('unsat' answers trusted)", "go/types and the govc VC generator (Go subset semantics, heap model, frame rule)", "Go compiler and runtime")
	for _, m := range []map[string]bool{trusted} {
		var ks []string
		for k := range m {
			ks = append(ks, k)
		}
		sort.Strings(ks)
		tb = append(tb, ks...)
	}
	var ab []string
	for k := range abstracted {
		ab = append(ab, "abstracted callee (result and reachable memory havocked): "+k)
	}
	sort.Strings(ab)
	tb = append(tb, ab...)
	var us []string
	for k := range unsupported {
		us = append(us, "construct outside the verified subset (over-approximated by havoc): "+k)
	}
	sort.Strings(us)
	tb = append(tb, us...)
	var samples []map[string]any
	for i, o := range all {
		if i%max(1, len(all)/6) == 0 && len(samples) < 8 {
			sz := 0
			if fi, err := os.Stat(o.queryFile); err == nil {
				sz = int(fi.Size())
			}
			samples = append(samples, map[string]any{"obligation": o.Name, "kind": o.Kind, "source": o.Pos, "status": o.Status, "backend": o.Solver, "time_s": o.TimeS, "smt_bytes": sz, "goal": truncate(o.Goal, 300)})
		}
	}
	var und []string
	for _, o := range undecided {
		und = append(und, o.Name+" ["+o.Status+"]")
	}
	var vio []string
	for _, o := range violations {
		vio = append(vio, o.Name+" ["+o.Status+"]")
	}
	cov := map[string]any{
		"obligations":         claimed,
		"discharged":          discharged,
		"checker_cmd":         fmt.Sprintf("/verif/bin/check %s --tier %s  (govc: WP/VC generation from /repo working tree with -tags verif; z3-new | z3 | cvc5 raced per obligation)", prop, tier),
		"trusted_base":        tb,
		"functions":           funcs,
		"discharged_by":       bySolver,
		"solver_time_s":       solverTime,
		"samples":             samples,
		"undecided":           und,
		"failed":              vio,
		"known_findings":      known,
		"bounded":             bounded,
		"undecided_clauses":   cfg.Undecided,
		"engine_faults":       faults,
		"vacuous_functions":   vacuous,
		"integer_model":       "mathematical Int; uint8/16/32/64 and int8/16/32 arithmetic wraps exactly (mod 2^w); int/int64 overflow not modelled (listed in trusted_base when used)",
		"explanation":         cfg.Explanation,
	}
	level := cfg.Level
	if level == "" {
		level = "proof"
	}
	if claimed == 0 {
		// nothing proved: report honestly as other
		level = "other"
		if cfg.Explanation == "" {
			cov["explanation"] = "no obligations generated"
		}
	}
	ev := map[string]any{
		"property_id": prop,
		"tier":        tier,
		"seed":        seed,
		"level":       level,
		"coverage":    cov,
		"assumptions": append(append([]string{}, cfg.Assumptions...), tb...),
		"wall_s":      wall,
		"violations":  len(violations),
	}
	out, _ := json.MarshalIndent(ev, "", " ")
	os.MkdirAll(filepath.Join(verif, "evidence"), 0o755)
	os.WriteFile(filepath.Join(verif, "evidence", prop+".json"), out, 0o644)
}

// ---------------- counterexample extraction and replay ----------------

func extractInputs(o *Obligation) string {
	var b strings.Builder
	for _, in := range o.fv.inputs {
		v := modelValue(o.Model, in.Term)
		fmt.Fprintf(&b, "  %s = %s\n", in.Name, v)
	}
	for _, in := range o.fv.ghostIn {
		v := modelValue(o.Model, in.Term)
		fmt.Fprintf(&b, "  ghost %s = %s\n", in.Name, truncate(v, 200))
	}
	return b.String()
}

// modelValue finds (define-fun name () Sort value) in a z3/cvc5 model.
func modelValue(model, name string) string {
	idx := strings.Index(model, "(define-fun "+name+" ")
	if idx < 0 {
		return "?"
	}
	rest := model[idx:]
	depth := 0
	for i := 0; i < len(rest); i++ {
		if rest[i] == '(' {
			depth++
		} else if rest[i] == ')' {
			depth--
			if depth == 0 {
				def := rest[:i+1]
				// strip "(define-fun name () Sort"
				parts := strings.SplitN(def, "\n", 2)
				if len(parts) == 2 {
					return strings.TrimSpace(strings.TrimSuffix(strings.TrimSpace(parts[1]), ")"))
				}
				return def
			}
		}
	}
	return "?"
}

func tryReplay(repo, verif string, o *Obligation, inputs string) (string, bool) {
	return replayObligation(repo, verif, o)
}

// runBounded executes a bounded stand-in: an in-package Go test injected through -overlay.
func containsStr(xs []string, x string) bool {
	for _, y := range xs {
		if y == x {
			return true
		}
	}
	return false
}

func runBounded(repo, verif, prop string, bs BoundedSpec, tier string, seed int, sub string, knownKinds []string) (map[string]any, string) {
	start := time.Now()
	ev := map[string]any{"name": bs.Name, "contract_checked": bs.What, "bound": bs.Bound, "label": "bounded (not counted as proved)"}
	src := filepath.Join(verif, "bounded", bs.Test)
	pkgDir := filepath.Join(repo, bs.Dir)
	dst := filepath.Join(pkgDir, "zz_verif_bounded_"+strings.TrimSuffix(filepath.Base(bs.Test), ".go")+"_test.go")
	ovDir := filepath.Join(verif, "out", "overlay")
	os.MkdirAll(ovDir, 0o755)
	replace := map[string]string{dst: src}
	if sub != "" {
		parts := strings.SplitN(sub, "|", 3)
		if len(parts) == 3 {
			p := parts[0]
			if !strings.HasPrefix(p, "/") {
				p = filepath.Join(repo, p)
			}
			if data, err := os.ReadFile(p); err == nil {
				mp := filepath.Join(ovDir, "mut_"+filepath.Base(p))
				os.WriteFile(mp, []byte(strings.Replace(string(data), parts[1], parts[2], 1)), 0o644)
				replace[p] = mp
			}
		}
	}
	ovFile := filepath.Join(ovDir, prop+"_"+bs.Name+".json")
	ovJSON, _ := json.Marshal(map[string]any{"Replace": replace})
	os.WriteFile(ovFile, ovJSON, 0o644)
	modDir := moduleDirOf(pkgDir)
	modfile := prepareModfile(verif, modDir)
	args := []string{"test", "-modfile=" + modfile, "-overlay", ovFile, "-vet=off", "-count=1", "-timeout", "20m", "-run", bs.Run}
	if bs.LdFlags {
		args = append(args, "-ldflags=-checklinkname=0")
	}
	args = append(args, "-v", ".")
	cmd := exec.Command("go", args...)
	cmd.Dir = pkgDir
	cmd.Env = append(os.Environ(), "GOFLAGS=-mod=mod", "GOPROXY=off", "GOSUMDB=off", "GOTOOLCHAIN=local", "VERIF_TIER="+tier, "VERIF_SEED="+strconv.Itoa(seed), "VERIF_OUT="+filepath.Join(verif, "out"), "VERIF_KNOWN="+strings.Join(knownKinds, " "))
	out, err := cmd.CombinedOutput()
	text := string(out)
	ev["wall_s"] = time.Since(start).Seconds()
	if m := regexp.MustCompile(`BOUNDED-CASES (\d+)`).FindAllStringSubmatch(text, -1); m != nil {
		total := 0
		for _, x := range m {
			n, _ := strconv.Atoi(x[1])
			total += n
		}
		ev["cases"] = total
	}
	if m := regexp.MustCompile(`BOUNDED-KNOWN (\S+)`).FindAllStringSubmatch(text, -1); m != nil {
		var ks []string
		for _, x := range m {
			if !containsStr(ks, x[1]) {
				ks = append(ks, x[1])
			}
		}
		ev["known_kinds_seen"] = ks
	}
	if m := regexp.MustCompile(`BOUNDED-SAMPLE (.*)`).FindAllStringSubmatch(text, 5); m != nil {
		var ss []string
		for _, x := range m {
			ss = append(ss, x[1])
		}
		ev["samples"] = ss
	}
	if err != nil {
		if strings.Contains(text, "BOUNDED-FAIL") || strings.Contains(text, "--- FAIL") {
			rp := filepath.Join(verif, "out", "replays", prop+"_bounded_"+bs.Name+".txt")
			os.MkdirAll(filepath.Dir(rp), 0o755)
			os.WriteFile(rp, []byte("bounded stand-in "+bs.Name+" failed on the real code\ncommand: go "+strings.Join(args, " ")+" (in "+pkgDir+")\n\n"+truncate(text, 20000)), 0o644)
			ev["result"] = "fail"
			return ev, rp
		}
		ev["result"] = "error: " + truncate(text, 2000)
		fmt.Printf("ENGINE-FAULT bounded %s could not run: %s\n", bs.Name, truncate(text, 600))
		return ev, ""
	}
	ev["result"] = "pass"
	return ev, ""
}

func moduleDirOf(dir string) string {
	d := dir
	for d != "/" {
		if _, err := os.Stat(filepath.Join(d, "go.mod")); err == nil {
			return d
		}
		d = filepath.Dir(d)
	}
	return dir
}

// prepareModfile copies go.mod/go.sum so go invocations never rewrite the repository's files.
func prepareModfile(verif, modDir string) string {
	dst := filepath.Join(verif, "out", "gomod", sanitize(modDir))
	os.MkdirAll(dst, 0o755)
	for _, f := range []string{"go.mod", "go.sum"} {
		if data, err := os.ReadFile(filepath.Join(modDir, f)); err == nil {
			os.WriteFile(filepath.Join(dst, f), data, 0o644)
		}
	}
	return filepath.Join(dst, "go.mod")
}
