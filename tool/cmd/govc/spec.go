package main

// Evaluation of specification expressions (requires / ensures / invariants / lemmas).

import (
	"sort"
	"fmt"
	"go/ast"
	"go/constant"
	"go/token"
	"go/types"
	"math/big"
	"strconv"
	"strings"
)

type specEnv struct {
	fv      *FuncVerifier
	st      *State // state in which heap reads happen
	old     *State // state for old(...)
	vars    map[string]Val
	resolve func(name string) (Val, bool) // program variables by name (in env.st)
	resolveOld func(name string) (Val, bool)
	addrOf  func(name string) (string, bool)
	pkgScope *types.Scope
	depth   int
	err     *[]string
}

func (env *specEnv) fail(msg string) Val {
	*env.err = append(*env.err, msg)
	// an unconstrained value: a goal containing it cannot be proved, an assumption containing it adds nothing
	return Val{T: env.fv.fresh("specerr", "Bool"), Sort: "Bool"}
}

func (env *specEnv) with(vars map[string]Val) *specEnv {
	n := *env
	n.vars = map[string]Val{}
	for k, v := range env.vars {
		n.vars[k] = v
	}
	for k, v := range vars {
		n.vars[k] = v
	}
	return &n
}

func (v Val) sortIn(sc *sortCtx) string {
	if v.Ty != nil {
		return sc.sortOf(v.Ty)
	}
	if v.Sort != "" {
		return v.Sort
	}
	return "Int"
}

func ghostSort(kind string) string {
	switch kind {
	case "int", "nat":
		return "Int"
	case "bool":
		return "Bool"
	case "seq":
		return "(Array Int Int)"
	case "seqseq":
		return "(Array Int (Array Int Int))"
	case "slice", "bytes":
		return "Slice"
	case "sliceseq":
		return "(Array Int Slice)"
	case "real":
		return "Real"
	case "rank":
		return "Rank"
	case "rankseq":
		return "(Array Int Rank)"
	case "str":
		return "Str"
	}
	return kind // raw SMT sort
}

func (env *specEnv) heapRead(h string, v Val) string {
	st := env.st
	if v.St != nil {
		st = v.St
	}
	return env.fv.heapOf(st, h)
}

func (env *specEnv) eval(e ast.Expr) Val {
	fv := env.fv
	sc := fv.eng.sc
	switch e := e.(type) {
	case *ast.ParenExpr:
		return env.eval(e.X)
	case *ast.BasicLit:
		switch e.Kind {
		case token.INT:
			v, _ := new(big.Int).SetString(e.Value, 0)
			return Val{T: smtInt(v), Sort: "Int"}
		case token.CHAR:
			r, _, _, _ := strconv.UnquoteChar(e.Value[1:len(e.Value)-1], '\'')
			return Val{T: strconv.Itoa(int(r)), Sort: "Int"}
		case token.STRING:
			s, _ := strconv.Unquote(e.Value)
			return Val{T: fv.eng.strLit(s), Ty: types.Typ[types.String]}
		case token.FLOAT:
			return Val{T: smtReal(constant.MakeFromLiteral(e.Value, token.FLOAT, 0)), Sort: "Real"}
		}
	case *ast.Ident:
		return env.ident(e.Name)
	case *ast.UnaryExpr:
		x := env.eval(e.X)
		switch e.Op {
		case token.NOT:
			return Val{T: not(x.T), Sort: "Bool"}
		case token.SUB:
			return Val{T: "(- " + x.T + ")", Sort: x.sortIn(sc)}
		case token.ADD:
			return x
		}
	case *ast.BinaryExpr:
		a := env.eval(e.X)
		b := env.eval(e.Y)
		switch e.Op {
		case token.LAND:
			return Val{T: and(a.T, b.T), Sort: "Bool"}
		case token.LOR:
			return Val{T: or(a.T, b.T), Sort: "Bool"}
		case token.EQL, token.NEQ:
			var t string
			ty := a.Ty
			if ty == nil {
				ty = b.Ty
			}
			// comparison with nil
			if id, ok := e.Y.(*ast.Ident); ok && id.Name == "nil" {
				if a.sortIn(sc) == "Slice" {
					t = "(= " + sRef(a.T) + " 0)"
				} else {
					t = "(= " + a.T + " 0)"
				}
			} else if a.Ty != nil && b.Ty != nil {
				t = fv.eqTerm(a.T, b.T, ty)
			} else {
				t = "(= " + a.T + " " + b.T + ")"
			}
			if e.Op == token.NEQ {
				t = not(t)
			}
			return Val{T: t, Sort: "Bool"}
		case token.LSS, token.LEQ, token.GTR, token.GEQ:
			if a.sortIn(sc) == "Rank" && b.sortIn(sc) == "Rank" {
				// ranks of byte strings: compared by the total order rank.le
				fv.eng.needBytesRank()
				switch e.Op {
				case token.LEQ:
					return Val{T: "(rank.le " + a.T + " " + b.T + ")", Sort: "Bool"}
				case token.GEQ:
					return Val{T: "(rank.le " + b.T + " " + a.T + ")", Sort: "Bool"}
				case token.LSS:
					return Val{T: "(not (rank.le " + b.T + " " + a.T + "))", Sort: "Bool"}
				default:
					return Val{T: "(not (rank.le " + a.T + " " + b.T + "))", Sort: "Bool"}
				}
			}
			op := map[token.Token]string{token.LSS: "<", token.LEQ: "<=", token.GTR: ">", token.GEQ: ">="}[e.Op]
			return Val{T: "(" + op + " " + a.T + " " + b.T + ")", Sort: "Bool"}
		case token.ADD:
			return Val{T: plus(a.T, b.T), Sort: numSort(a, b, sc)}
		case token.SUB:
			return Val{T: minus(a.T, b.T), Sort: numSort(a, b, sc)}
		case token.MUL:
			return Val{T: "(* " + a.T + " " + b.T + ")", Sort: numSort(a, b, sc)}
		case token.QUO:
			if numSort(a, b, sc) == "Real" {
				return Val{T: "(/ " + a.T + " " + b.T + ")", Sort: "Real"}
			}
			return Val{T: "(div " + a.T + " " + b.T + ")", Sort: "Int"}
		case token.REM:
			return Val{T: "(mod " + a.T + " " + b.T + ")", Sort: "Int"}
		}
	case *ast.IndexExpr:
		x := env.eval(e.X)
		i := env.eval(e.Index)
		return env.index(x, i)
	case *ast.SliceExpr:
		x := env.eval(e.X)
		if x.Ty != nil {
			if au, ok := x.Ty.Underlying().(*types.Array); ok {
				// array value viewed as a ghost sequence slice is not supported; use index
				_ = au
				return env.fail("slice of array in spec: " + fv.exprText(e))
			}
		}
		lo, hi := "0", sLen(x.T)
		if e.Low != nil {
			lo = env.eval(e.Low).T
		}
		if e.High != nil {
			hi = env.eval(e.High).T
		}
		return Val{T: mkSlice(sRef(x.T), plus(sOff(x.T), lo), minus(hi, lo), minus(sCap(x.T), lo)), Ty: x.Ty, St: x.St, Sort: "Slice"}
	case *ast.SelectorExpr:
		// pkg.Name
		if id, ok := e.X.(*ast.Ident); ok {
			if _, isLocal := env.lookup(id.Name); !isLocal {
				if v, ok := env.qualified(id.Name, e.Sel.Name); ok {
					return v
				}
			}
		}
		x := env.eval(e.X)
		return env.field(x, e.Sel.Name)
	case *ast.StarExpr:
		x := env.eval(e.X)
		if x.Ty != nil {
			if p, ok := x.Ty.Underlying().(*types.Pointer); ok {
				h := sc.ptrHeap(p.Elem())
				return Val{T: "(select " + env.heapRead(h, x) + " " + x.T + ")", Ty: p.Elem(), St: x.St}
			}
		}
		return env.fail("deref of non-pointer in spec")
	case *ast.CallExpr:
		return env.call(e)
	case *ast.CompositeLit:
		// [2]byte{0,0} style array literals and struct literals with constant fields
		return env.fail("composite literal in spec: " + fv.exprText(e))
	}
	return env.fail(fmt.Sprintf("unsupported spec expression %T", e))
}

func numSort(a, b Val, sc *sortCtx) string {
	if a.sortIn(sc) == "Real" || b.sortIn(sc) == "Real" {
		return "Real"
	}
	return "Int"
}

func (env *specEnv) lookup(name string) (Val, bool) {
	if v, ok := env.vars[name]; ok {
		return v, true
	}
	if name == "idx" && env.resolve != nil {
		// a program variable named idx shadows the loop-counter alias
		if v, ok := env.resolve(name); ok {
			return v, true
		}
	}
	if v, ok := env.st.ghost[name]; ok {
		return v, true
	}
	if env.resolve != nil {
		if v, ok := env.resolve(name); ok {
			return v, true
		}
	}
	return Val{}, false
}

func (env *specEnv) ident(name string) Val {
	switch name {
	case "true":
		return Val{T: "true", Sort: "Bool"}
	case "false":
		return Val{T: "false", Sort: "Bool"}
	case "nil":
		return Val{T: "0", Sort: "Int"}
	}
	if v, ok := env.lookup(name); ok {
		return v
	}
	// package-level object
	if env.pkgScope != nil {
		if o := env.pkgScope.Lookup(name); o != nil {
			return env.object(o)
		}
	}
	return env.fail("unknown identifier in spec: " + name)
}

func (env *specEnv) object(o types.Object) Val {
	fv := env.fv
	switch o := o.(type) {
	case *types.Const:
		if v, ok := fv.constVal(o.Val(), o.Type()); ok {
			return v
		}
	case *types.Var:
		return fv.readGlobal(env.st, o)
	}
	return env.fail("unsupported object in spec: " + o.Name())
}

func (env *specEnv) qualified(pkgName, name string) (Val, bool) {
	fv := env.fv
	for _, imp := range fv.pkg.Types.Imports() {
		if imp.Name() == pkgName {
			if o := imp.Scope().Lookup(name); o != nil {
				return env.object(o), true
			}
		}
	}
	// also search all loaded packages by name (for specs that mention packages the file does not import)
	for _, p := range fv.eng.allTypes {
		if p.Name() == pkgName {
			if o := p.Scope().Lookup(name); o != nil {
				return env.object(o), true
			}
		}
	}
	return Val{}, false
}

func (env *specEnv) index(x, i Val) Val {
	fv := env.fv
	sc := fv.eng.sc
	if x.Ty == nil {
		// ghost sequence
		switch x.sortIn(sc) {
		case "(Array Int Int)":
			return Val{T: "(select " + x.T + " " + i.T + ")", Sort: "Int"}
		case "(Array Int (Array Int Int))":
			return Val{T: "(select " + x.T + " " + i.T + ")", Sort: "(Array Int Int)"}
		case "(Array Int Slice)":
			return Val{T: "(select " + x.T + " " + i.T + ")", Sort: "Slice", St: x.St}
		case "Slice":
			// untyped byte slice
			h := sc.sliceHeap(types.Typ[types.Uint8])
			return Val{T: "(select (select " + env.heapRead(h, x) + " " + sRef(x.T) + ") " + plus(sOff(x.T), i.T) + ")", Sort: "Int"}
		}
		if srt := x.sortIn(sc); strings.HasPrefix(srt, "(Array ") {
			parts := splitTop(srt[7 : len(srt)-1])
			if len(parts) == 2 {
				return Val{T: "(select " + x.T + " " + i.T + ")", Sort: parts[1]}
			}
		}
		return env.fail("index on ghost value of sort " + x.sortIn(sc))
	}
	switch u := x.Ty.Underlying().(type) {
	case *types.Slice:
		h := sc.sliceHeap(u.Elem())
		return Val{T: "(select (select " + env.heapRead(h, x) + " " + sRef(x.T) + ") " + plus(sOff(x.T), i.T) + ")", Ty: u.Elem(), St: x.St}
	case *types.Array:
		return Val{T: "(select " + x.T + " " + i.T + ")", Ty: u.Elem(), St: x.St}
	case *types.Basic:
		if isString(x.Ty) {
			return Val{T: "(gs.at " + x.T + " " + i.T + ")", Sort: "Int"}
		}
	case *types.Map:
		hv, hh := sc.mapHeaps(u)
		has := "(and (not (= " + x.T + " 0)) (select (select " + env.heapRead(hh, x) + " " + x.T + ") " + i.T + "))"
		return Val{T: "(ite " + has + " (select (select " + env.heapRead(hv, x) + " " + x.T + ") " + i.T + ") " + sc.zero(u.Elem()) + ")", Ty: u.Elem(), St: x.St}
	case *types.Pointer:
		if au, ok := u.Elem().Underlying().(*types.Array); ok {
			h := sc.ptrHeap(u.Elem())
			return Val{T: "(select (select " + env.heapRead(h, x) + " " + x.T + ") " + i.T + ")", Ty: au.Elem(), St: x.St}
		}
	}
	return env.fail("index on " + x.Ty.String())
}

func (env *specEnv) field(x Val, name string) Val {
	fv := env.fv
	sc := fv.eng.sc
	if x.Ty == nil {
		return env.fail("field " + name + " of ghost value")
	}
	t := x.Ty
	cur := x
	if p, ok := t.Underlying().(*types.Pointer); ok {
		h := sc.ptrHeap(p.Elem())
		cur = Val{T: "(select " + env.heapRead(h, x) + " " + x.T + ")", Ty: p.Elem(), St: x.St}
		t = p.Elem()
	}
	obj, path, _ := types.LookupFieldOrMethod(t, true, fv.pkg.Types, name)
	if obj == nil {
		// unexported field of another package
		if n, ok := t.(*types.Named); ok && n.Obj().Pkg() != nil {
			obj, path, _ = types.LookupFieldOrMethod(t, true, n.Obj().Pkg(), name)
		}
	}
	if _, ok := obj.(*types.Var); !ok {
		return env.fail("no field " + name + " in " + t.String())
	}
	for _, idx := range path {
		if p, ok := cur.Ty.Underlying().(*types.Pointer); ok {
			h := sc.ptrHeap(p.Elem())
			cur = Val{T: "(select " + env.heapRead(h, cur) + " " + cur.T + ")", Ty: p.Elem(), St: x.St}
		}
		su, ok := cur.Ty.Underlying().(*types.Struct)
		if !ok {
			return env.fail("field path through non-struct")
		}
		f := su.Field(idx)
		n := sc.sortOf(cur.Ty)
		cur = Val{T: "(" + sc.fieldSel(n, f) + " " + cur.T + ")", Ty: f.Type(), St: x.St}
	}
	return cur
}

func (env *specEnv) seqEq(a, b Val) string {
	fv := env.fv
	sc := fv.eng.sc
	et := types.Type(types.Typ[types.Uint8])
	if a.Ty != nil {
		if s, ok := a.Ty.Underlying().(*types.Slice); ok {
			et = s.Elem()
		}
	} else if b.Ty != nil {
		if s, ok := b.Ty.Underlying().(*types.Slice); ok {
			et = s.Elem()
		}
	}
	h := sc.sliceHeap(et)
	fv.nfresh++
	q := fmt.Sprintf("q%d", fv.nfresh)
	ra := "(select (select " + env.heapRead(h, a) + " " + sRef(a.T) + ") (+ " + sOff(a.T) + " " + q + "))"
	rb := "(select (select " + env.heapRead(h, b) + " " + sRef(b.T) + ") (+ " + sOff(b.T) + " " + q + "))"
	return "(and (= " + sLen(a.T) + " " + sLen(b.T) + ") (forall ((" + q + " Int)) (=> (and (<= 0 " + q + ") (< " + q + " " + sLen(a.T) + ")) (= " + ra + " " + rb + "))))"
}

func (env *specEnv) call(e *ast.CallExpr) Val {
	fv := env.fv
	sc := fv.eng.sc
	name := ""
	switch f := e.Fun.(type) {
	case *ast.Ident:
		name = f.Name
	case *ast.SelectorExpr:
		if id, ok := f.X.(*ast.Ident); ok {
			name = id.Name + "." + f.Sel.Name
		}
	}
	arg := func(i int) Val { return env.eval(e.Args[i]) }
	need := func(n int) bool {
		if len(e.Args) != n {
			env.fail(fmt.Sprintf("%s expects %d args", name, n))
			return false
		}
		return true
	}
	switch name {
	case "implies":
		if !need(2) {
			return Val{T: "false"}
		}
		return Val{T: implies(arg(0).T, arg(1).T), Sort: "Bool"}
	case "iff":
		if !need(2) {
			return Val{T: "false"}
		}
		return Val{T: "(= " + arg(0).T + " " + arg(1).T + ")", Sort: "Bool"}
	case "ite":
		if !need(3) {
			return Val{T: "false"}
		}
		a, b := arg(1), arg(2)
		return Val{T: ite(arg(0).T, a.T, b.T), Ty: a.Ty, Sort: a.Sort, St: a.St}
	case "old":
		if !need(1) {
			return Val{T: "false"}
		}
		n := *env
		n.st = env.old
		if env.resolveOld != nil {
			n.resolve = env.resolveOld
		}
		v := n.eval(e.Args[0])
		if v.St == nil {
			v.St = env.old
		}
		return v
	case "len":
		if !need(1) {
			return Val{T: "0"}
		}
		x := arg(0)
		if x.Ty != nil {
			switch u := x.Ty.Underlying().(type) {
			case *types.Array:
				return Val{T: strconv.FormatInt(u.Len(), 10), Sort: "Int"}
			case *types.Basic:
				if isString(x.Ty) {
					return Val{T: "(gs.len " + x.T + ")", Sort: "Int"}
				}
			case *types.Map:
				fv.eng.needMapLen = true
				_, hh := sc.mapHeaps(u)
				return Val{T: "(map.len_" + typeKey(u.Key()) + " (select " + env.heapRead(hh, x) + " " + x.T + "))", Sort: "Int"}
			}
		}
		return Val{T: sLen(x.T), Sort: "Int"}
	case "cap":
		return Val{T: sCap(arg(0).T), Sort: "Int"}
	case "forall", "exists":
		if len(e.Args) != 4 {
			return env.fail(name + " needs (var, lo, hi, body)")
		}
		id, ok := e.Args[0].(*ast.Ident)
		if !ok {
			return env.fail("quantifier variable must be an identifier")
		}
		fv.nfresh++
		q := fmt.Sprintf("%s_q%d", id.Name, fv.nfresh)
		lo, hi := arg(1), arg(2)
		body := env.with(map[string]Val{id.Name: {T: q, Sort: "Int"}}).eval(e.Args[3])
		rng := "(and (<= " + lo.T + " " + q + ") (< " + q + " " + hi.T + "))"
		if name == "forall" {
			return Val{T: "(forall ((" + q + " Int)) (=> " + rng + " " + body.T + "))", Sort: "Bool"}
		}
		return Val{T: "(exists ((" + q + " Int)) (and " + rng + " " + body.T + "))", Sort: "Bool"}
	case "seqeq", "bytes.Equal":
		if !need(2) {
			return Val{T: "false"}
		}
		return Val{T: env.seqEq(arg(0), arg(1)), Sort: "Bool"}
	case "brank":
		// brank(b): rank of the contents of byte slice b in lexicographic order (see rankTerm)
		if !need(1) {
			return Val{T: "0", Sort: "Int"}
		}
		x := arg(0)
		fv.eng.needBytesRank()
		hh := sc.sliceHeap(types.Typ[types.Uint8])
		return Val{T: "(bytes.rank (select " + env.heapRead(hh, x) + " " + sRef(x.T) + ") " + sOff(x.T) + " " + sLen(x.T) + ")", Sort: "Rank"}
	case "sprintf":
		// sprintf("format", args...): the engine's model of fmt.Sprintf for that constant format
		if lit, ok := e.Args[0].(*ast.BasicLit); ok {
			format, _ := strconv.Unquote(lit.Value)
			var vals []Val
			var tys []types.Type
			okTypes := true
			for i := 1; i < len(e.Args); i++ {
				v := arg(i)
				vals = append(vals, v)
				if v.Ty == nil {
					switch v.sortIn(sc) {
					case "Int":
						tys = append(tys, types.Typ[types.Uint64])
					case "Str":
						tys = append(tys, types.Typ[types.String])
					default:
						okTypes = false
					}
				} else {
					tys = append(tys, v.Ty)
				}
			}
			// the model the program's own Sprintf call with this format created: arguments are given flat
			// (array arguments element by element)
			var same []*sprintfFn
			for k, m := range fv.eng.sprintfFns {
				if strings.HasPrefix(k, format+"|") || k == format {
					same = append(same, m)
				}
			}
			if len(same) == 1 {
				n := 0
				for _, x := range same[0].expand {
					if x > 0 {
						n += x
					} else {
						n++
					}
				}
				if n == len(vals) {
					flat := &sprintfFn{name: same[0].name}
					return Val{T: flat.apply(vals), Ty: types.Typ[types.String]}
				}
			}
			if okTypes {
				if m := fv.eng.sprintfModel(format, tys); m != nil {
					return Val{T: m.apply(vals), Ty: types.Typ[types.String]}
				}
			}
		}
		env.fail("sprintf(): format outside the modelled subset")
		return Val{T: fv.fresh("specerr", "Str"), Ty: types.Typ[types.String]}
	case "string":
		// string(b) for a byte slice, as in Go
		x := arg(0)
		if x.Ty != nil {
			if sl, ok := x.Ty.Underlying().(*types.Slice); ok && isInteger(sl.Elem()) {
				return Val{T: fv.strOfBytes(env.st, x.T, sl.Elem()), Ty: types.Typ[types.String]}
			}
			if isString(x.Ty) {
				return x
			}
		}
		env.fail("string(): argument is not a byte slice")
		return Val{T: fv.fresh("specerr", "Str"), Ty: types.Typ[types.String]}
	case "fresh":
		x := arg(0)
		r := x.T
		if x.sortIn(sc) == "Slice" {
			r = sRef(x.T)
		}
		return Val{T: "(>= " + r + " " + env.old.alloc + ")", Sort: "Bool"}
	case "allocated":
		// allocated(x): the object x refers to exists in the current state (its reference is below the allocation mark)
		x := arg(0)
		r := x.T
		if x.sortIn(sc) == "Slice" {
			r = sRef(x.T)
		}
		return Val{T: "(< " + r + " " + env.st.alloc + ")", Sort: "Bool"}
	case "unbox":
		// unbox(ifaceValue, "pkg.Type"): the value of that dynamic type stored in the interface
		if lit, ok := e.Args[1].(*ast.BasicLit); ok {
			name, _ := strconv.Unquote(lit.Value)
			if i := strings.LastIndex(name, "."); i > 0 {
				for _, tp := range fv.eng.allTypes {
					if tp.Name() == name[:i] {
						if o := tp.Scope().Lookup(name[i+1:]); o != nil {
							fn := "dyn.val_" + typeKey(o.Type())
							fv.eng.dynVals[fn] = sc.sortOf(o.Type())
							fv.eng.needDyn = true
							return Val{T: "(" + fn + " " + arg(0).T + ")", Ty: o.Type()}
						}
					}
				}
			}
		}
		return env.fail("unbox: unknown type")
	case "asptr", "ptrtag":
		// asptr(ifaceValue, "pkg.Type"): the interface reference viewed as *pkg.Type; ptrtag: its dynamic-type tag
		idx := 1
		if name == "ptrtag" {
			idx = 0
		}
		if lit, ok := e.Args[idx].(*ast.BasicLit); ok {
			tn, _ := strconv.Unquote(lit.Value)
			if i := strings.LastIndex(tn, "."); i > 0 {
				for _, tp := range fv.eng.allTypes {
					if tp.Name() == tn[:i] {
						if o := tp.Scope().Lookup(tn[i+1:]); o != nil {
							pt := types.NewPointer(o.Type())
							if name == "ptrtag" {
								return Val{T: fv.dynTag(pt), Sort: "Int"}
							}
							return Val{T: arg(0).T, Ty: pt}
						}
					}
				}
			}
		}
		return env.fail(name + ": unknown type")
	case "freshzero":
		// freshzero(g): the ghost map g holds 0 at every reference that is not allocated yet
		fv.nfresh++
		q := fmt.Sprintf("fz%d", fv.nfresh)
		return Val{T: "(forall ((" + q + " Int)) (=> (>= " + q + " " + env.st.alloc + ") (= (select " + arg(0).T + " " + q + ") 0)))", Sort: "Bool"}
	case "same":
		// same(a, b): identical values (SMT equality, e.g. the very same array value, not just equal elements)
		if !need(2) {
			return Val{T: "false"}
		}
		return Val{T: "(= " + arg(0).T + " " + arg(1).T + ")", Sort: "Bool"}
	case "haskey":
		if !need(2) {
			return Val{T: "false"}
		}
		m := arg(0)
		if m.Ty != nil {
			if mt, ok := m.Ty.Underlying().(*types.Map); ok {
				_, hh := sc.mapHeaps(mt)
				return Val{T: "(and (not (= " + m.T + " 0)) (select (select " + env.heapRead(hh, m) + " " + m.T + ") " + arg(1).T + "))", Sort: "Bool"}
			}
		}
		return env.fail("haskey on non-map")
	case "typetag":
		// typetag("pkg.Type"): the dynamic-type tag of a named Go type
		if lit, ok := e.Args[0].(*ast.BasicLit); ok {
			name, _ := strconv.Unquote(lit.Value)
			if i := strings.LastIndex(name, "."); i > 0 {
				for _, tp := range fv.eng.allTypes {
					if tp.Name() == name[:i] {
						if o := tp.Scope().Lookup(name[i+1:]); o != nil {
							return Val{T: fv.dynTag(o.Type()), Sort: "Int"}
						}
					}
				}
			}
		}
		return env.fail("typetag: unknown type")
	case "inst":
		fv.eng.needTime()
		return Val{T: "(time.inst " + arg(0).T + ")", Sort: "Int"}
	case "clock":
		if v, ok := env.st.ghost["$clock"]; ok {
			return v
		}
		return Val{T: "0", Sort: "Int"}
	case "upd":
		if !need(3) {
			return Val{T: "false"}
		}
		a := arg(0)
		return Val{T: "(store " + a.T + " " + arg(1).T + " " + arg(2).T + ")", Sort: a.sortIn(sc), Ty: a.Ty}
	case "ref":
		return Val{T: sRef(arg(0).T), Sort: "Int"}
	case "addr":
		// address of a heap-resident (boxed) local variable
		if id, ok := e.Args[0].(*ast.Ident); ok && env.addrOf != nil {
			if t, ok := env.addrOf(id.Name); ok {
				return Val{T: t, Sort: "Int"}
			}
		}
		if sel, ok := e.Args[0].(*ast.SelectorExpr); ok {
			base := env.eval(sel.X)
			if base.Ty != nil {
				if p, ok := base.Ty.Underlying().(*types.Pointer); ok {
					if su, ok := p.Elem().Underlying().(*types.Struct); ok {
						for k := 0; k < su.NumFields(); k++ {
							if su.Field(k).Name() == sel.Sel.Name {
								fv.eng.needFieldAddr()
								return Val{T: fmt.Sprintf("(addr.field %s %d)", base.T, k), Sort: "Int"}
							}
						}
					}
				}
			}
		}
		return env.fail("addr() of a variable that is not heap-resident")
	case "off":
		return Val{T: sOff(arg(0).T), Sort: "Int"}
	case "errors.Is":
		if !need(2) {
			return Val{T: "false"}
		}
		fv.eng.needErr = true
		a, b := arg(0), arg(1)
		return Val{T: "(or (= " + a.T + " " + b.T + ") (and (not (= " + a.T + " 0)) (err.wraps " + a.T + " " + b.T + ")))", Sort: "Bool"}
	case "int", "uint8", "uint16", "uint32", "uint64", "byte", "int64", "int32", "uint":
		return Val{T: arg(0).T, Sort: "Int"}
	case "band", "bor", "bxor", "bandnot":
		// bitwise operations as the program's: uninterpreted functions with range axioms
		if !need(2) {
			return Val{T: "0", Sort: "Int"}
		}
		fv.eng.needBitFns = true
		fn := map[string]string{"band": "bit.and", "bor": "bit.or", "bxor": "bit.xor", "bandnot": "bit.andnot"}[name]
		return Val{T: "(" + fn + " " + arg(0).T + " " + arg(1).T + ")", Sort: "Int"}
	case "min":
		a, b := arg(0), arg(1)
		return Val{T: "(ite (<= " + a.T + " " + b.T + ") " + a.T + " " + b.T + ")", Sort: "Int"}
	case "max":
		a, b := arg(0), arg(1)
		return Val{T: "(ite (>= " + a.T + " " + b.T + ") " + a.T + " " + b.T + ")", Sort: "Int"}
	case "dyntype":
		fv.eng.needDyn = true
		return Val{T: "(dyn.type " + arg(0).T + ")", Sort: "Int"}
	case "held":
		// held(lockpath) : ghost lock state term
		return Val{T: fv.lockTerm(env.st, fv.exprText(e.Args[0])), Sort: "Int"}
	case "strlit":
		return arg(0)
	}
	// uninterpreted ghost function declared with "ufun"
	if uf, ok := fv.eng.ufuns[strings.TrimPrefix(name, "uf.")]; ok {
		var as []string
		for i := range e.Args {
			as = append(as, arg(i).T)
		}
		if len(as) == 0 {
			return Val{T: uf.Name, Sort: uf.Ret}
		}
		return Val{T: "(" + uf.Name + " " + strings.Join(as, " ") + ")", Sort: uf.Ret}
	}
	// spec function (macro expansion)
	if sf, ok := fv.eng.contracts.Specs[name]; ok {
		if len(sf.Params) != len(e.Args) {
			return env.fail("spec function " + name + ": wrong arity")
		}
		if sf.Opaque {
			pd, err := fv.eng.predDef(fv, sf)
			if err != "" {
				return env.fail(err)
			}
			var as []string
			for _, h := range pd.heaps {
				as = append(as, fv.heapOf(env.st, h))
			}
			for _, h := range pd.oldHeaps {
				as = append(as, fv.heapOf(env.old, h))
			}
			for i := range e.Args {
				as = append(as, arg(i).T)
			}
			return Val{T: "(" + pd.name + " " + strings.Join(as, " ") + ")", Sort: "Bool"}
		}
		if env.depth > 20 {
			return env.fail("spec function recursion too deep: " + name)
		}
		vars := map[string]Val{}
		for i, p := range sf.Params {
			vars[p.Name] = arg(i)
		}
		n := *env
		n.vars = vars
		n.depth = env.depth + 1
		n.resolve = nil
		n.resolveOld = nil
		v := n.eval(sf.Body)
		if v.Ty == nil && v.Sort == "" {
			v.Sort = ghostSort(sf.Ret)
		}
		return v
	}
	return env.fail("unknown spec function " + name)
}

// ---- opaque predicates ----

type predDef struct {
	name     string
	heaps    []string
	oldHeaps []string // two-state predicates: heaps read under old(...)
	formals  []string // formal argument names in application order
	body     string
	binders  string // sorted binders of the formals, for the quantified form of the definition
}

// paramVal builds a formal parameter value of the given kind (ghost kind or Go type expression).
func (eng *Engine) paramVal(fv *FuncVerifier, name, kind, pkgPath string) (Val, string) {
	switch kind {
	case "int", "nat", "bool", "seq", "seqseq", "slice", "sliceseq", "real", "str", "rank", "rankseq":
		return Val{T: name, Sort: ghostSort(kind)}, ghostSort(kind)
	}
	p := eng.pkgs[pkgPath]
	if p == nil {
		p = fv.pkg
	}
	tv, err := types.Eval(p.Fset, p.Types, token.NoPos, kind)
	if err != nil || !tv.IsType() {
		return Val{}, ""
	}
	return Val{T: name, Ty: tv.Type}, eng.sc.sortOf(tv.Type)
}

func (eng *Engine) predDef(fv *FuncVerifier, sf *SpecFunc) (*predDef, string) {
	if pd, ok := eng.preds[sf.Name]; ok {
		return pd, ""
	}
	// evaluate the body once over formal parameters and formal heaps
	st := &State{vars: map[types.Object]string{}, ghost: map[string]Val{}, heaps: map[string]string{}, pc: "true", locks: map[string]string{}, symHeaps: map[string]bool{}, symPrefix: "HV_", anc: map[int]bool{0: true}, alloc: "pa_alloc"}
	ost := &State{vars: map[types.Object]string{}, ghost: map[string]Val{}, heaps: map[string]string{}, pc: "true", locks: map[string]string{}, symHeaps: map[string]bool{}, symPrefix: "HVO_", anc: map[int]bool{0: true}, alloc: "pa_alloc"}
	vars := map[string]Val{}
	var binders []string
	var formals []string
	for _, p := range sf.Params {
		v, srt := eng.paramVal(fv, "pa_"+p.Name, p.Kind, sf.Pkg)
		if srt == "" {
			return nil, "pred " + sf.Name + ": cannot resolve parameter type " + p.Kind
		}
		vars[p.Name] = v
		binders = append(binders, "(pa_"+p.Name+" "+srt+")")
		formals = append(formals, "pa_"+p.Name)
	}
	var errs []string
	env := &specEnv{fv: fv, st: st, old: ost, vars: vars, err: &errs, depth: 1}
	if p := eng.pkgs[sf.Pkg]; p != nil {
		env.pkgScope = p.Types.Scope()
	}
	// register before evaluating to allow (guarded) recursion
	pd := &predDef{name: "pred." + sf.Name}
	eng.preds[sf.Name] = pd
	body := env.eval(sf.Body)
	if len(errs) > 0 {
		delete(eng.preds, sf.Name)
		return nil, "pred " + sf.Name + ": " + strings.Join(errs, "; ")
	}
	var hs []string
	for h := range st.symHeaps {
		hs = append(hs, h)
	}
	sort.Strings(hs)
	pd.heaps = hs
	var hb, hf []string
	var sorts []string
	for _, h := range hs {
		hb = append(hb, "(HV_"+h+" "+eng.sc.heaps[h]+")")
		hf = append(hf, "HV_"+h)
		sorts = append(sorts, eng.sc.heaps[h])
	}
	var ohs []string
	for h := range ost.symHeaps {
		ohs = append(ohs, h)
	}
	sort.Strings(ohs)
	pd.oldHeaps = ohs
	for _, h := range ohs {
		hb = append(hb, "(HVO_"+h+" "+eng.sc.heaps[h]+")")
		hf = append(hf, "HVO_"+h)
		sorts = append(sorts, eng.sc.heaps[h])
	}
	for _, p := range sf.Params {
		_, srt := eng.paramVal(fv, "x", p.Kind, sf.Pkg)
		sorts = append(sorts, srt)
	}
	app := "(" + pd.name + " " + strings.Join(append(hf, formals...), " ") + ")"
	eng.predDecls = append(eng.predDecls, "(declare-fun "+pd.name+" ("+strings.Join(sorts, " ")+") Bool)")
	eng.predDecls = append(eng.predDecls, "")
	pd.binders = strings.Join(append(hb, binders...), " ")
	_ = app
	pd.formals = append(append([]string{}, hf...), formals...)
	pd.body = body.T
	return pd, ""
}
