package main

import (
	"flag"
	"fmt"
	"os"
	"sort"
	"strings"
)

func main() {
	if len(os.Args) < 2 {
		fmt.Fprintln(os.Stderr, "usage: govc func|check ...")
		os.Exit(2)
	}
	switch os.Args[1] {
	case "func":
		cmdFunc(os.Args[2:])
	case "check":
		cmdCheck(os.Args[2:])
	default:
		fmt.Fprintln(os.Stderr, "unknown command")
		os.Exit(2)
	}
}

func cmdFunc(args []string) {
	fs := flag.NewFlagSet("func", flag.ExitOnError)
	repo := fs.String("repo", "/repo/dnsrocks", "module dir")
	pkg := fs.String("pkg", "", "package pattern (./dnsdata/rdb)")
	fn := fs.String("func", "", "function keys, comma separated")
	verbose := fs.Bool("v", false, "verbose")
	keep := fs.Bool("keep", false, "keep smt files")
	to := fs.Int("timeout", 10, "solver timeout seconds")
	sub := fs.String("sub", "", "mutation: path|old|new (textual, first occurrence) applied through an overlay")
	fs.Parse(args)
	eng := newEngine(*repo)
	if *sub != "" {
		if err := eng.addSub(*sub); err != nil {
			fmt.Fprintln(os.Stderr, "sub:", err)
			os.Exit(2)
		}
	}
	if err := eng.load([]string{*pkg}); err != nil {
		fmt.Fprintln(os.Stderr, "load:", err)
		os.Exit(2)
	}
	var p = firstPkg(eng)
	for _, key := range strings.Split(*fn, ",") {
		fv, err := eng.verifyFunc(p, key)
		if err != nil {
			fmt.Fprintln(os.Stderr, err)
			os.Exit(2)
		}
		prelude := eng.prelude()
		dischargeAll(fv.obls, prelude, 8, 3, *to, *keep)
		ok := 0
		for _, o := range fv.obls {
			if o.Status == "unsat" {
				ok++
			}
			if *verbose || o.Status != "unsat" {
				fmt.Printf("  %-8s %-7s %6.2fs %s  (%s)\n", o.Status, o.Solver, o.TimeS, o.Name, o.Pos)
				if o.Status != "unsat" && *keep {
					fmt.Printf("      query: %s\n", o.queryFile)
				}
			}
		}
		fmt.Printf("%s: %d/%d discharged\n", fv.name, ok, len(fv.obls))
		if len(fv.unsupp) > 0 {
			fmt.Println("  unsupported:", strings.Join(uniq(fv.unsupp), " | "))
		}
		if *verbose {
			var ns []string
			for n := range fv.notes {
				ns = append(ns, n)
			}
			sort.Strings(ns)
			for _, n := range ns {
				fmt.Println("  note:", n)
			}
			for a := range fv.abstracted {
				fmt.Println("  abstracted:", a)
			}
		}
	}
}

func uniq(in []string) []string {
	seen := map[string]bool{}
	var out []string
	for _, s := range in {
		if !seen[s] {
			seen[s] = true
			out = append(out, s)
		}
	}
	return out
}

func firstPkg(eng *Engine) (p *pkgT) {
	var keys []string
	for k := range eng.pkgs {
		keys = append(keys, k)
	}
	sort.Strings(keys)
	return eng.pkgs[keys[0]]
}


func (eng *Engine) addSub(spec string) error {
	parts := strings.SplitN(spec, "|", 3)
	if len(parts) != 3 {
		return fmt.Errorf("need path|old|new")
	}
	path := parts[0]
	if !strings.HasPrefix(path, "/") {
		path = eng.repoDir + "/" + path
	}
	data, err := os.ReadFile(path)
	if err != nil {
		return err
	}
	if !strings.Contains(string(data), parts[1]) {
		return fmt.Errorf("pattern not found in %s", path)
	}
	if eng.overlay == nil {
		eng.overlay = map[string][]byte{}
	}
	eng.overlay[path] = []byte(strings.Replace(string(data), parts[1], parts[2], 1))
	return nil
}
