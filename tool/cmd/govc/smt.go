package main

// SMT-LIB emission and solver racing.

import (
	"runtime"
	"regexp"
	"bytes"
	"context"
	"crypto/sha1"
	"fmt"
	"os"
	"os/exec"
	"path/filepath"
	"sort"
	"strconv"
	"strings"
	"sync"
	"time"
)

func (eng *Engine) prelude() string {
	var b strings.Builder
	b.WriteString(eng.sc.decls())
	b.WriteString("(declare-fun gs.empty () Str)\n(assert (= (gs.len gs.empty) 0))\n")
	b.WriteString("(assert (forall ((s Str)) (>= (gs.len s) 0)))\n")
	// strings are determined by their content (extensionality) — only when a contract asks for it
	if eng.needStrExt {
	b.WriteString("(declare-fun gs.diff (Str Str) Int)\n")
	b.WriteString("(assert (forall ((a Str) (b Str)) (=> (and (= (gs.len a) (gs.len b)) (not (= a b))) (and (<= 0 (gs.diff a b)) (< (gs.diff a b) (gs.len a)) (not (= (gs.at a (gs.diff a b)) (gs.at b (gs.diff a b))))))))\n")
	}
	for _, s := range eng.strOrder {
		n := eng.strs[s]
		if s == "" {
			continue
		}
		fmt.Fprintf(&b, "(declare-fun %s () Str)\n(assert (= (gs.len %s) %d))\n", n, n, len(s))
		if len(s) <= 80 {
			for i := 0; i < len(s); i++ {
				fmt.Fprintf(&b, "(assert (= (gs.at %s %d) %d))\n", n, i, s[i])
			}
		}
	}
	{
		var lits []string
		for _, s := range eng.strOrder {
			lits = append(lits, eng.strs[s])
		}
		if len(lits) > 1 {
			b.WriteString("(assert (distinct " + strings.Join(lits, " ") + "))\n")
		}
	}
	if eng.needStrOfBytes {
		b.WriteString("(declare-fun gs.ofbytes ((Array Int Int) Int Int) Str)\n")
	}
	if eng.needStrConcat {
		b.WriteString("(declare-fun gs.cat (Str Str) Str)\n")
		b.WriteString("(assert (forall ((a Str) (b Str)) (= (gs.len (gs.cat a b)) (+ (gs.len a) (gs.len b)))))\n")
		b.WriteString("(assert (forall ((a Str) (b Str) (i Int)) (=> (and (<= 0 i) (< i (+ (gs.len a) (gs.len b)))) (= (gs.at (gs.cat a b) i) (ite (< i (gs.len a)) (gs.at a i) (gs.at b (- i (gs.len a))))))))\n")
	}
	if eng.needSubstr {
		b.WriteString("(declare-fun gs.sub (Str Int Int) Str)\n")
		b.WriteString("(assert (forall ((a Str) (lo Int) (hi Int)) (=> (and (<= 0 lo) (<= lo hi) (<= hi (gs.len a))) (= (gs.len (gs.sub a lo hi)) (- hi lo)))))\n")
		b.WriteString("(assert (forall ((a Str) (lo Int) (hi Int) (i Int)) (=> (and (<= 0 lo) (<= lo hi) (<= hi (gs.len a)) (<= 0 i) (< i (- hi lo))) (= (gs.at (gs.sub a lo hi) i) (gs.at a (+ lo i))))))\n")
	}
	if eng.needStrCmp {
		b.WriteString("(declare-fun gs.lt (Str Str) Bool)\n(declare-fun gs.le (Str Str) Bool)\n")
		b.WriteString("(assert (forall ((a Str) (b Str)) (= (gs.le a b) (or (= a b) (gs.lt a b)))))\n")
		b.WriteString("(assert (forall ((a Str) (b Str)) (not (and (gs.lt a b) (gs.lt b a)))))\n")
	}
	if eng.needBitFns {
		b.WriteString("(declare-fun bit.and (Int Int) Int)\n(declare-fun bit.or (Int Int) Int)\n(declare-fun bit.xor (Int Int) Int)\n(declare-fun bit.andnot (Int Int) Int)\n(declare-fun pow2f (Int) Int)\n")
		b.WriteString("(assert (forall ((x Int) (y Int)) (=> (and (>= x 0) (>= y 0)) (and (>= (bit.and x y) 0) (<= (bit.and x y) x) (<= (bit.and x y) y)))))\n")
		b.WriteString("(assert (forall ((x Int) (y Int)) (=> (and (>= x 0) (>= y 0)) (and (>= (bit.or x y) x) (>= (bit.or x y) y) (<= (bit.or x y) (+ x y))))))\n")
		b.WriteString("(assert (forall ((x Int) (y Int)) (=> (and (>= x 0) (>= y 0)) (and (>= (bit.xor x y) 0) (<= (bit.xor x y) (+ x y))))))\n")
		b.WriteString("(assert (forall ((x Int) (y Int)) (=> (and (>= x 0) (>= y 0)) (and (>= (bit.andnot x y) 0) (<= (bit.andnot x y) x)))))\n")
		b.WriteString("(assert (forall ((k Int)) (> (pow2f k) 0)))\n")
	}
	if eng.needDyn || len(eng.dynTags) > 0 {
		b.WriteString("(declare-fun dyn.type (Int) Int)\n")
		var tags []string
		for t := range eng.dynTags {
			tags = append(tags, t)
		}
		sort.Strings(tags)
		for i, t := range tags {
			fmt.Fprintf(&b, "(define-fun %s () Int %d)\n", t, 1000+i)
		}
		var dv []string
		for f := range eng.dynVals {
			dv = append(dv, f)
		}
		sort.Strings(dv)
		for _, f := range dv {
			fmt.Fprintf(&b, "(declare-fun %s (Int) %s)\n", f, eng.dynVals[f])
		}
	}
	b.WriteString("(declare-fun err.wraps (Int Int) Bool)\n")
	var mk []string
	for k := range eng.mapLenKeys {
		mk = append(mk, k)
	}
	sort.Strings(mk)
	for _, k := range mk {
		fmt.Fprintf(&b, "(declare-fun map.len_%s ((Array %s Bool)) Int)\n(assert (forall ((m (Array %s Bool))) (>= (map.len_%s m) 0)))\n", k, eng.mapLenKeys[k], eng.mapLenKeys[k], k)
	}
	// globals
	var errGlobals []string
	for _, g := range eng.globOrder {
		o := eng.globals[g]
		fmt.Fprintf(&b, "(declare-fun %s () %s)\n", g, eng.sc.sortOf(o.Type()))
		for _, c := range eng.sc.typeInv(g, o.Type(), 0) {
			b.WriteString("(assert " + c + ")\n")
		}
		if isErrorType(o.Type()) {
			errGlobals = append(errGlobals, g)
			fmt.Fprintf(&b, "(assert (> %s 0))\n", g)
		}
	}
	if len(errGlobals) > 1 {
		b.WriteString("(assert (distinct " + strings.Join(errGlobals, " ") + "))\n")
	}
	var ga []string
	for g := range eng.gaddrs {
		ga = append(ga, g)
	}
	sort.Strings(ga)
	for _, g := range ga {
		fmt.Fprintf(&b, "(declare-fun %s () Int)\n(assert (> %s 0))\n", g, g)
	}
	var fr []string
	for f := range eng.funcRefs {
		fr = append(fr, f)
	}
	sort.Strings(fr)
	for _, f := range fr {
		fmt.Fprintf(&b, "(declare-fun %s () Int)\n(assert (> %s 0))\n", f, f)
	}
	b.WriteString("%%OPTIONAL%%\n")
	return b.String()
}

// optionalDecls returns the declarations/axioms of ghost functions and opaque predicates that the
// query text actually mentions (transitively), so unrelated quantified axioms do not burden the solver.
func (eng *Engine) optionalDecls(body string) string {
	type item struct {
		sym  string
		text string
	}
	var items []item
	var uf []string
	for n := range eng.ufuns {
		uf = append(uf, n)
	}
	sort.Strings(uf)
	for _, n := range uf {
		u := eng.ufuns[n]
		t := fmt.Sprintf("(declare-fun %s (%s) %s)\n", u.Name, strings.Join(u.Args, " "), u.Ret)
		for _, a := range eng.axioms {
			if strings.Contains(a, u.Name+" ") {
				t += "(assert " + a + ")\n"
			}
		}
		items = append(items, item{u.Name, t})
	}
	items = append(items, item{"gs.zeros", "(declare-fun gs.zeros () (Array Int Str))\n(assert (forall ((i Int)) (! (= (select gs.zeros i) gs.empty) :pattern ((select gs.zeros i)))))\n"})
	for i := 0; i+1 < len(eng.predDecls); i += 2 {
		d := eng.predDecls[i]
		name := strings.Fields(d)[1]
		items = append(items, item{name, d + "\n" + eng.predDecls[i+1] + "\n"})
	}
	used := make([]bool, len(items))
	text := body
	for changed := true; changed; {
		changed = false
		for i, it := range items {
			if !used[i] && (strings.Contains(text, "("+it.sym+" ") || strings.Contains(text, " "+it.sym+")") || strings.Contains(text, " "+it.sym+" ")) {
				used[i] = true
				text += it.text
				changed = true
			}
		}
	}
	var b strings.Builder
	for i, it := range items {
		if used[i] {
			b.WriteString(it.text)
		}
	}
	return b.String()
}

// query builds the SMT-LIB text for one obligation.
func (o *Obligation) query(prelude string) string {
	fv := o.fv
	var b strings.Builder
	b.WriteString("(set-option :produce-models true)\n(set-logic ALL)\n")
	var body strings.Builder
	defer func() {}()
	b.WriteString(prelude)
	// heap initial consts may be declared after use in decl order: decls are in creation order, fine
	for _, d := range fv.decls[:o.NDecl] {
		b.WriteString(d + "\n")
	}
	for i, a := range fv.entryAxioms {
		if fv.entryAxiomDecl[i] <= o.NDecl {
			b.WriteString("(assert " + a + ")\n")
		}
	}
	for i, a := range fv.assumes[:o.NAssume] {
		if i < len(fv.atags) && o.Anc != nil && !o.Anc[fv.atags[i]] {
			continue // assumption made in a branch that does not flow into this obligation
		}
		b.WriteString("(assert " + a + ")\n")
	}
	b.WriteString("(assert " + o.PC + ")\n")
	if o.Cover {
		b.WriteString("(assert " + o.Goal + ")\n")
	} else {
		b.WriteString("(assert (not " + o.Goal + "))\n")
	}
	b.WriteString("(check-sat)\n(get-model)\n")
	_ = body
	full := b.String()
	// reveal: unfold the definitions of the opaque predicates named in the goal, for each of their
	// applications in the query; every other predicate stays folded (uninterpreted).
	reveal := o.fv.eng.revealDefs(o.Goal, full, o.fv.contract.Reveal)
	full = strings.Replace(full, "(check-sat)\n(get-model)\n", reveal+"(check-sat)\n(get-model)\n", 1)
	return strings.Replace(full, "%%OPTIONAL%%\n", o.fv.eng.optionalDecls(full), 1)
}

// predApps finds all applications "(pred.NAME a1 ... an)" in text.
func predApps(text, name string) [][]string {
	var out [][]string
	needle := "(" + name + " "
	seen := map[string]bool{}
	for i := 0; ; {
		j := strings.Index(text[i:], needle)
		if j < 0 {
			break
		}
		start := i + j
		depth := 0
		end := -1
		for k := start; k < len(text); k++ {
			if text[k] == '(' {
				depth++
			} else if text[k] == ')' {
				depth--
				if depth == 0 {
					end = k
					break
				}
			}
		}
		if end < 0 {
			break
		}
		app := text[start : end+1]
		if !seen[app] {
			seen[app] = true
			out = append(out, splitTop(app[len(needle):len(app)-1]))
		}
		i = start + len(needle)
	}
	return out
}

var boundVarRe = regexp.MustCompile(`(^|[ (])([A-Za-z]+_)?q[0-9]+($|[ )])`)

var identChar = func(c byte) bool {
	return c == '_' || c == '.' || c == '!' || (c >= '0' && c <= '9') || (c >= 'a' && c <= 'z') || (c >= 'A' && c <= 'Z')
}

// substFormals replaces whole-token occurrences of formals by actuals.
func substFormals(body string, formals, actuals []string) string {
	m := map[string]string{}
	for i, f := range formals {
		if i < len(actuals) {
			m[f] = actuals[i]
		}
	}
	var b strings.Builder
	for i := 0; i < len(body); {
		if identChar(body[i]) {
			j := i
			for j < len(body) && identChar(body[j]) {
				j++
			}
			tok := body[i:j]
			if r, ok := m[tok]; ok {
				b.WriteString(r)
			} else {
				b.WriteString(tok)
			}
			i = j
			continue
		}
		b.WriteByte(body[i])
		i++
	}
	return b.String()
}

func (eng *Engine) revealDefs(goal, full string, always []string) string {
	var names []string
	for n, pd := range eng.preds {
		inAlways := false
		for _, a := range always {
			if a == n {
				inAlways = true
			}
		}
		if inAlways || strings.Contains(goal, "("+pd.name+" ") {
			names = append(names, n)
		}
	}
	sort.Strings(names)
	var b strings.Builder
	done := map[string]bool{}
	for round := 0; round < 3; round++ {
		added := false
		text := full + b.String()
		for _, n := range names {
			pd := eng.preds[n]
			for _, args := range predApps(text, pd.name) {
				if len(args) != len(pd.formals) {
					continue
				}
				key := pd.name + " " + strings.Join(args, " ")
				if done[key] || strings.Join(args, " ") == strings.Join(pd.formals, " ") {
					continue
				}
				done[key] = true
				added = true
				if boundVarRe.MatchString(strings.Join(args, " ")) {
					// the application sits under a quantifier: reveal through the quantified definition
					qk := pd.name + " #quantified"
					if !done[qk] {
						done[qk] = true
						app := "(" + pd.name + " " + strings.Join(pd.formals, " ") + ")"
						fmt.Fprintf(&b, "(assert (forall (%s) (! (= %s %s) :pattern (%s))))\n", pd.binders, app, pd.body, app)
					}
					continue
				}
				fmt.Fprintf(&b, "(assert (= (%s %s) %s))\n", pd.name, strings.Join(args, " "), substFormals(pd.body, pd.formals, args))
			}
		}
		if !added {
			break
		}
	}
	return b.String()
}

type solverSpec struct {
	name string
	args func(file string, timeoutS int) []string
}

var solvers = []solverSpec{
	{"z3-new", func(f string, t int) []string { return []string{"z3-new", "-T:" + strconv.Itoa(t), f} }},
	{"z3", func(f string, t int) []string { return []string{"z3", "-T:" + strconv.Itoa(t), f} }},
	{"cvc5", func(f string, t int) []string {
		return []string{"cvc5", "--tlimit=" + strconv.Itoa(t*1000), "--lang=smt2", f}
	}},
}

// retrySolvers: the second-chance portfolio. A goal that the default configurations miss is often found at once
// under another random seed or instantiation strategy (the heuristics are sensitive to the order of assertions);
// "unsat" from any configuration is as good as from any other.
var retrySolvers = []solverSpec{
	{"z3-new/seed1", func(f string, t int) []string {
		return []string{"z3-new", "-T:" + strconv.Itoa(t), "smt.random_seed=1", "sat.random_seed=1", f}
	}},
	{"z3-new/seed2", func(f string, t int) []string {
		return []string{"z3-new", "-T:" + strconv.Itoa(t), "smt.random_seed=2", "sat.random_seed=2", "smt.arith.random_initial_value=true", f}
	}},
	{"z3-new/seed3", func(f string, t int) []string {
		return []string{"z3-new", "-T:" + strconv.Itoa(t), "smt.random_seed=3", "smt.qi.eager_threshold=50", f}
	}},
	{"z3/seed4", func(f string, t int) []string {
		return []string{"z3", "-T:" + strconv.Itoa(t), "smt.random_seed=4", f}
	}},
	{"cvc5/enum", func(f string, t int) []string {
		return []string{"cvc5", "--tlimit=" + strconv.Itoa(t*1000), "--lang=smt2", "--enum-inst", "--seed=5", f}
	}},
	{"cvc5/seed6", func(f string, t int) []string {
		return []string{"cvc5", "--tlimit=" + strconv.Itoa(t*1000), "--lang=smt2", "--seed=6", f}
	}},
}

type solveResult struct {
	status string
	solver string
	secs   float64
	output string
}

func runSolver(ctx context.Context, sp solverSpec, file string, timeoutS int) solveResult {
	args := sp.args(file, timeoutS)
	start := time.Now()
	cctx, cancel := context.WithTimeout(ctx, time.Duration(timeoutS+2)*time.Second)
	defer cancel()
	cmd := exec.CommandContext(cctx, args[0], args[1:]...)
	var out bytes.Buffer
	cmd.Stdout = &out
	cmd.Stderr = &out
	_ = cmd.Run()
	secs := time.Since(start).Seconds()
	text := out.String()
	first := strings.TrimSpace(strings.SplitN(text, "\n", 2)[0])
	st := "unknown"
	switch first {
	case "unsat":
		st = "unsat"
	case "sat":
		st = "sat"
	case "timeout":
		st = "timeout"
	default:
		if cctx.Err() != nil {
			st = "timeout"
		} else if strings.Contains(first, "error") || strings.Contains(first, "Error") {
			st = "error"
		}
	}
	return solveResult{status: st, solver: sp.name, secs: secs, output: text}
}

// solve races the solvers on one query file.
func solve(file string, quickS, fullS int) solveResult {
	return solveWith(solvers, file, quickS, fullS)
}

func solveWith(solvers []solverSpec, file string, quickS, fullS int) solveResult {
	var first solveResult
	_ = quickS
	ctx, cancel := context.WithCancel(context.Background())
	defer cancel()
	ch := make(chan solveResult, len(solvers))
	for _, sp := range solvers {
		sp := sp
		go func() { ch <- runSolver(ctx, sp, file, fullS) }()
	}
	var best solveResult = first
	nerr := 0
	for range solvers {
		r := <-ch
		if r.status == "unsat" || r.status == "sat" {
			// prefer unsat/sat; a "sat" on quantified problems from one solver while another says unsat is a disagreement
			return r
		}
		if r.status == "error" {
			nerr++
		}
		if best.status == "" || (r.status == "unknown" && best.status != "unknown") || (best.status == "error" && r.status != "error") {
			best = r
		}
	}
	// "error" is reported only when EVERY solver rejected the query (it is ill-formed: the contract does not fit the
	// source it was evaluated against); one solver's parse problem next to another's timeout is a timeout
	if best.status == "error" && nerr < len(solvers) {
		best.status = "unknown"
	}
	return best
}

func smtDir() string {
	d := os.Getenv("GOVC_OUT")
	if d == "" {
		d = "/verif/out"
	}
	d = filepath.Join(d, "smt")
	os.MkdirAll(d, 0o755)
	return d
}

// dischargeAll runs the solvers over all obligations with bounded parallelism.
// loadFactor: how much slower than on an idle machine a solver process can be expected to run right now (the 1-minute
// load average per core, between 1 and 3). Time limits are wall-clock; a verdict must not depend on what else runs.
func loadFactor() float64 {
	b, err := os.ReadFile("/proc/loadavg")
	if err != nil {
		return 1
	}
	f := strings.Fields(string(b))
	if len(f) == 0 {
		return 1
	}
	l, err := strconv.ParseFloat(f[0], 64)
	if err != nil {
		return 1
	}
	r := l / float64(runtime.NumCPU())
	if r < 1 {
		return 1
	}
	if r > 3 {
		return 3
	}
	return r
}

func dischargeAll(obls []*Obligation, prelude string, par, quickS, fullS int, keep bool) {
	baseS := fullS
	fullS = int(float64(fullS)*loadFactor() + 0.5)
	sem := make(chan struct{}, par)
	var wg sync.WaitGroup
	dir := smtDir()
	for _, o := range obls {
		o := o
		if o.Goal == "true" && !o.Cover {
			o.Status, o.Solver = "unsat", "trivial"
			continue
		}
		wg.Add(1)
		sem <- struct{}{}
		go func() {
			defer wg.Done()
			defer func() { <-sem }()
			q := o.query(prelude)
			h := sha1.Sum([]byte(o.Name + q))
			if os.Getenv("GOVC_STABLE_NAMES") != "" {
				h = sha1.Sum([]byte(o.Name + o.Func + o.Pos))
			}
			file := filepath.Join(dir, fmt.Sprintf("%x.smt2", h[:8]))
			os.WriteFile(file, []byte(q), 0o644)
			r := solve(file, quickS, fullS)
			o.Status, o.Solver, o.TimeS = r.status, r.solver, r.secs
			if r.status == "sat" {
				o.Model = r.output
			} else if r.status != "unsat" {
				o.Model = r.output
			}
			o.queryFile = file
			if !keep && r.status == "unsat" {
				os.Remove(file)
			}
		}()
	}
	wg.Wait()
	// second chance, one at a time and with a longer limit, for obligations that merely ran out of time
	// while all cores were busy (a timeout under load must not become an alarm)
	// (a few at a time: three solvers race per obligation, so par/2 keeps the machine well under full load)
	rpar := par / 3
	if rpar < 1 {
		rpar = 1
	}
	rsem := make(chan struct{}, rpar)
	var rwg sync.WaitGroup
	for _, o := range obls {
		o := o
		if o.Status == "unsat" || o.Status == "sat" || o.Status == "error" || o.queryFile == "" || o.Cover || o.NoRetry {
			continue
		}
		rwg.Add(1)
		rsem <- struct{}{}
		go func() {
			defer rwg.Done()
			defer func() { <-rsem }()
			// first other seeds/strategies at the normal limit (a goal missed by heuristics is usually found at
			// once), then the default configurations with twice the time (a goal that merely ran out of time)
			r := solveWith(retrySolvers, o.queryFile, quickS, fullS)
			if r.status != "unsat" && r.status != "sat" {
				r = solve(o.queryFile, quickS, 2*fullS)
			}
			if r.status == "unsat" || r.status == "sat" {
				o.Status, o.Solver, o.TimeS = r.status, r.solver+" (retry)", r.secs
				if r.status == "sat" {
					o.Model = r.output
				}
				if r.status == "unsat" && !keep {
					os.Remove(o.queryFile)
				}
			}
		}()
	}
	rwg.Wait()
	// last resort before an obligation is reported as not discharged: when only a few are left (a mass failure is
	// not a scheduling accident), each gets the whole portfolio, two at a time, with four times the limit
	var left []*Obligation
	for _, o := range obls {
		if o.Status == "unsat" || o.Status == "sat" || o.Status == "error" || o.queryFile == "" || o.Cover || o.NoRetry {
			continue
		}
		left = append(left, o)
	}
	if len(left) > 0 && len(left) <= 8 {
		all := append(append([]solverSpec{}, solvers...), retrySolvers...)
		fsem := make(chan struct{}, 2)
		var fwg sync.WaitGroup
		for _, o := range left {
			o := o
			fwg.Add(1)
			fsem <- struct{}{}
			go func() {
				defer fwg.Done()
				defer func() { <-fsem }()
				r := solveWith(all, o.queryFile, quickS, int(float64(4*baseS)*loadFactor()+0.5))
				if r.status == "unsat" || r.status == "sat" {
					o.Status, o.Solver, o.TimeS = r.status, r.solver+" (final)", r.secs
					if r.status == "sat" {
						o.Model = r.output
					}
					if r.status == "unsat" && !keep {
						os.Remove(o.queryFile)
					}
				}
			}()
		}
		fwg.Wait()
	}
}
