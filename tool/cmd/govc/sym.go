package main

// Symbolic state, fresh names, merging, obligations.

import (
	"regexp"
	"fmt"
	"go/ast"
	"go/token"
	"go/types"
	"sort"
	"strings"

	"golang.org/x/tools/go/packages"
)

type Val struct {
	T    string     // SMT term
	Ty   types.Type // Go type; nil for ghost/spec values
	Sort string     // SMT sort when Ty == nil
	St   *State     // heap snapshot the value was taken in (nil = current), used by old()
}

type State struct {
	vars  map[types.Object]string // current term of each Go variable (ref if boxed)
	ghost map[string]Val          // ghost / bound / spec variables by name
	heaps map[string]string       // heap name -> current term
	alloc string
	pc    string
	dead  bool
	locks map[string]string // ghost lock state: path -> term (0 free, 1 read, 2 write)
	symHeaps map[string]bool // non-nil: heaps are formal parameters (pred definitions)
	symPrefix string
	cur   int          // id of the innermost branch this state is in
	anc   map[int]bool // branch ids whose assumptions are relevant here (ancestors and merged-in branches)
}

func (s *State) clone() *State {
	n := &State{vars: make(map[types.Object]string, len(s.vars)), ghost: make(map[string]Val, len(s.ghost)), heaps: make(map[string]string, len(s.heaps)), alloc: s.alloc, pc: s.pc, dead: s.dead, locks: map[string]string{}, cur: s.cur, anc: make(map[int]bool, len(s.anc)+1)}
	for k := range s.anc {
		n.anc[k] = true
	}
	for k, v := range s.vars {
		n.vars[k] = v
	}
	for k, v := range s.ghost {
		n.ghost[k] = v
	}
	for k, v := range s.heaps {
		n.heaps[k] = v
	}
	for k, v := range s.locks {
		n.locks[k] = v
	}
	return n
}

type Obligation struct {
	Name    string
	Kind    string
	Goal    string
	PC      string
	NAssume int
	NDecl   int
	Pos     string
	Func    string
	Text    string
	// results
	Status  string // unsat(discharged) | sat | unknown | timeout
	Solver  string
	TimeS   float64
	Model   string
	Inputs  map[string]string
	fv      *FuncVerifier
	Cover   bool // cover obligation: expected sat
	Anc     map[int]bool
	GhostRet map[string]string // ghost result witnesses (terms) at this return site
	queryFile string
	NoRetry     bool // no second, longer attempt (clauses declared with "check": expected not to hold)
	GlobalWrite bool // frame obligation whose written location is rooted in a package-level variable
}

type loopCtx struct {
	label    string
	breaks   []*State
	conts    []*State
	isSwitch bool // switch/select: break only
}

type frameCtx struct {
	// function or closure frame
	results   []types.Object // named or synthesized result vars
	retStates []*State
	defers    []func(st *State)
	isClosure bool
	sig       *types.Signature
}

type modRegion struct {
	heap   string
	ref    string
	lo, hi string // "" = whole row
	whole  bool   // pointer cell
}

type FuncVerifier struct {
	eng      *Engine
	pkg      *packages.Package
	decl     *ast.FuncDecl
	fnObj    *types.Func
	contract *Contract
	name     string // pkg.Func

	decls   []string
	assumes []string
	atags   []int
	nbranch int
	obls    []*Obligation
	nfresh  int
	entry   *State
	alloc0  string
	loopOrd int
	loops   []*loopCtx
	frames  []*frameCtx

	closures  map[types.Object]*ast.FuncLit
	boxed     map[types.Object]bool
	recovers  bool
	quiet     int // >0: suppress obligations (dry runs)
	occ       map[string]int
	callOcc   map[string]int
	mods      []modRegion
	modsAny   bool // no frame checking (contract absent)
	notes     map[string]bool
	inputs    []inputVar
	ghostIn   []inputVar
	unsupp    []string
	loopNames map[ast.Stmt]int
	specScope *types.Scope
	specPos   token.Pos
	curPos    token.Pos
	abstracted map[string]bool
	nEntry int
	aliases map[types.Object]ast.Expr // locals bound once to &root.path: treated as names for that location
	regionStart token.Pos
	entryAxioms []string
	entryAxiomDecl []int
	globalsDone map[string]bool
	regionExit []string
	regionInit map[types.Object]string
	siteOcc map[string]int
	pendingAsserts []string
	letVars        map[string]*types.Var // ghost snapshots bound by let directives
	pendingWB      []arrayWB             // array views taken by the current statement, written back at its end
	stmtSites      map[ast.Stmt]string   // statements addressed by let directives (key = structural path, e.g. if#1)
}

type inputVar struct {
	Name string
	Term string
	Ty   types.Type
}

func (fv *FuncVerifier) fresh(base, sort string) string {
	fv.nfresh++
	n := fmt.Sprintf("%s!%d", sanitize(base), fv.nfresh)
	fv.decls = append(fv.decls, fmt.Sprintf("(declare-fun %s () %s)", n, sort))
	return n
}

func (fv *FuncVerifier) freshTyped(base string, t types.Type, st *State) string {
	n := fv.fresh(base, fv.eng.sc.sortOf(t))
	for _, c := range fv.eng.sc.typeInv(n, t, 0) {
		fv.assumes = append(fv.assumes, c)
	}
	return n
}

func (fv *FuncVerifier) assume(st *State, f string) {
	if st.dead {
		return
	}
	if st.pc == "true" {
		fv.assumes = append(fv.assumes, f)
	} else {
		fv.assumes = append(fv.assumes, "(=> "+st.pc+" "+f+")")
	}
	fv.tagLast(st.cur)
}

// tagLast records the branch tags of assumptions appended since the last call (default: global).
func (fv *FuncVerifier) tagLast(tag int) {
	for len(fv.atags) < len(fv.assumes)-1 {
		fv.atags = append(fv.atags, 0)
	}
	if len(fv.atags) < len(fv.assumes) {
		fv.atags = append(fv.atags, tag)
	}
}

// branch moves a state into a fresh branch id.
func (fv *FuncVerifier) branch(st *State) {
	fv.nbranch++
	st.cur = fv.nbranch
	if st.anc == nil {
		st.anc = map[int]bool{0: true}
	}
	st.anc[st.cur] = true
}

// assumeGlobal adds a fact independent of the path.
func (fv *FuncVerifier) assumeGlobal(f string) { fv.assumes = append(fv.assumes, f) }

func (fv *FuncVerifier) note(s string) {
	if fv.notes == nil {
		fv.notes = map[string]bool{}
	}
	fv.notes[s] = true
}

func normText(s string) string {
	s = strings.Join(strings.Fields(s), "")
	if len(s) > 70 {
		s = s[:70]
	}
	return s
}

func (fv *FuncVerifier) oblige(st *State, kind, text, goal string) {
	if fv.quiet > 0 || st.dead {
		return
	}
	if goal == "true" {
		// trivially true: still count it (discharged by construction)
	}
	if sk := fv.contract.Flags["skip"]; sk != "" && strings.Contains(" "+strings.ReplaceAll(sk, ",", " ")+" ", " "+kind+" ") {
		fv.note("obligations of kind '" + kind + "' are not claimed for " + fv.name + " (contract flag skip)")
		return
	}
	if fv.recovers && (kind == "bounds" || kind == "nil" || kind == "div" || kind == "typeassert" || kind == "unreachable-panic") {
		// panics inside a recover scope become the error result
		fv.note("panics inside recover() scope become the error result")
		return
	}
	base := fv.name + "/" + kind + "/" + normText(text)
	k := fv.occ[base]
	fv.occ[base] = k + 1
	if rx := fv.contract.Flags["unclaimed"]; rx != "" {
		if re, err := regexp.Compile(rx); err == nil && re.MatchString(fmt.Sprintf("%s#%d", base, k)) {
			fv.note("obligation not claimed (contract flag unclaimed): " + fmt.Sprintf("%s#%d", base, k))
			return
		}
	}
	o := &Obligation{Name: fmt.Sprintf("%s#%d", base, k), Kind: kind, Goal: goal, PC: st.pc, NAssume: len(fv.assumes), NDecl: len(fv.decls), Func: fv.name, Text: text, fv: fv, Anc: map[int]bool{0: true}}
	for a := range st.anc {
		o.Anc[a] = true
	}
	if fv.curPos.IsValid() {
		p := fv.pkg.Fset.Position(fv.curPos)
		o.Pos = fmt.Sprintf("%s:%d", p.Filename, p.Line)
	}
	if kind == "frame" {
		// a write whose target is rooted in a package-level variable can never be a write to a fresh object
		root := text
		if i := strings.IndexAny(root, "[.( "); i >= 0 {
			root = root[:i]
		}
		if v, ok := fv.pkg.Types.Scope().Lookup(root).(*types.Var); ok && v != nil && fv.findLocalByName(root, fv.curPos) == nil {
			isParam := false
			if sig, ok := fv.fnObj.Type().(*types.Signature); ok {
				for i := 0; i < sig.Params().Len(); i++ {
					isParam = isParam || sig.Params().At(i).Name() == root
				}
				isParam = isParam || (sig.Recv() != nil && sig.Recv().Name() == root)
			}
			o.GlobalWrite = !isParam
		}
	}
	fv.obls = append(fv.obls, o)
}

func and(a, b string) string {
	if a == "true" {
		return b
	}
	if b == "true" {
		return a
	}
	if a == "false" || b == "false" {
		return "false"
	}
	return "(and " + a + " " + b + ")"
}
func or(a, b string) string {
	if a == "false" {
		return b
	}
	if b == "false" {
		return a
	}
	if a == "true" || b == "true" {
		return "true"
	}
	return "(or " + a + " " + b + ")"
}
func not(a string) string {
	if a == "true" {
		return "false"
	}
	if a == "false" {
		return "true"
	}
	if strings.HasPrefix(a, "(not ") && strings.HasSuffix(a, ")") && balanced(a[5:len(a)-1]) {
		return a[5 : len(a)-1]
	}
	return "(not " + a + ")"
}
func balanced(s string) bool {
	d := 0
	for i := 0; i < len(s); i++ {
		if s[i] == '(' {
			d++
		} else if s[i] == ')' {
			d--
			if d < 0 {
				return false
			}
		} else if s[i] == ' ' && d == 0 {
			return false
		}
	}
	return d == 0
}
func implies(a, b string) string {
	if a == "true" {
		return b
	}
	if a == "false" || b == "true" {
		return "true"
	}
	return "(=> " + a + " " + b + ")"
}
func ite(c, a, b string) string {
	if c == "true" {
		return a
	}
	if c == "false" {
		return b
	}
	if a == b {
		return a
	}
	return "(ite " + c + " " + a + " " + b + ")"
}

// namePC introduces a Bool constant for a path condition to keep terms linear.
func (fv *FuncVerifier) namePC(pc string) string {
	if len(pc) < 40 {
		return pc
	}
	n := fv.fresh("pc", "Bool")
	fv.assumes = append(fv.assumes, "(= "+n+" "+pc+")")
	return n
}

// merge joins several states (dead ones ignored).
func (fv *FuncVerifier) merge(states []*State) *State {
	var live []*State
	for _, s := range states {
		if s != nil && !s.dead {
			live = append(live, s)
		}
	}
	if len(live) == 0 {
		d := &State{vars: map[types.Object]string{}, ghost: map[string]Val{}, heaps: map[string]string{}, alloc: "0", pc: "false", dead: true, locks: map[string]string{}, anc: map[int]bool{0: true}}
		if len(states) > 0 && states[0] != nil {
			d = states[0].clone()
			d.dead = true
			d.pc = "false"
		}
		return d
	}
	if len(live) == 1 {
		return live[0]
	}
	out := live[0].clone()
	for _, s := range live[1:] {
		for a := range s.anc {
			out.anc[a] = true
		}
	}
	fv.branch(out)
	pcs := make([]string, len(live))
	for i, s := range live {
		pcs[i] = s.pc
	}
	out.pc = fv.namePC("(or " + strings.Join(pcs, " ") + ")")
	// variables
	keys := map[types.Object]bool{}
	for _, s := range live {
		for k := range s.vars {
			keys[k] = true
		}
	}
	var ks []types.Object
	for k := range keys {
		ks = append(ks, k)
	}
	sort.Slice(ks, func(i, j int) bool {
		if ks[i].Pos() != ks[j].Pos() {
			return ks[i].Pos() < ks[j].Pos()
		}
		return ks[i].Name() < ks[j].Name()
	})
	for _, k := range ks {
		same := true
		first, ok0 := live[0].vars[k]
		for _, s := range live[1:] {
			if t, ok := s.vars[k]; !ok || !ok0 || t != first {
				same = false
				break
			}
		}
		if same {
			continue
		}
		inAll := true
		for _, s := range live {
			if _, ok := s.vars[k]; !ok {
				inAll = false
			}
		}
		if !inAll {
			if fv.regionStart.IsValid() && k.Pos() < fv.regionStart {
				// region mode: a local of the enclosing function first touched in one branch keeps its
				// (arbitrary) region-entry value in the others
				for _, s := range live {
					if _, ok := s.vars[k]; !ok {
						s.vars[k] = fv.initialVar(k)
					}
				}
			} else {
				// variable declared in a branch only: out of scope afterwards
				delete(out.vars, k)
				continue
			}
		}
		srt := fv.eng.sc.sortOf(k.Type())
		if fv.boxed[k] {
			srt = "Int"
		}
		n := fv.fresh(k.Name(), srt)
		for _, s := range live {
			fv.assumes = append(fv.assumes, "(=> "+s.pc+" (= "+n+" "+s.vars[k]+"))")
		}
		out.vars[k] = n
	}
	// ghost variables
	var gnames []string
	for name := range live[0].ghost {
		gnames = append(gnames, name)
	}
	sort.Strings(gnames)
	for _, name := range gnames {
		v0 := live[0].ghost[name]
		same := true
		for _, s := range live[1:] {
			if v, ok := s.ghost[name]; !ok || v.T != v0.T {
				same = false
			}
		}
		if same {
			continue
		}
		srt := v0.Sort
		if v0.Ty != nil {
			srt = fv.eng.sc.sortOf(v0.Ty)
		}
		n := fv.fresh(name, srt)
		ok := true
		for _, s := range live {
			v, has := s.ghost[name]
			if !has {
				ok = false
				break
			}
			fv.assumes = append(fv.assumes, "(=> "+s.pc+" (= "+n+" "+v.T+"))")
		}
		if ok {
			out.ghost[name] = Val{T: n, Ty: v0.Ty, Sort: v0.Sort}
		} else {
			delete(out.ghost, name)
		}
	}
	// heaps
	hk := map[string]bool{}
	for _, s := range live {
		for h := range s.heaps {
			hk[h] = true
		}
	}
	var hs []string
	for h := range hk {
		hs = append(hs, h)
	}
	sort.Strings(hs)
	for _, h := range hs {
		first := fv.heapOf(live[0], h)
		same := true
		for _, s := range live[1:] {
			if fv.heapOf(s, h) != first {
				same = false
			}
		}
		if same {
			out.heaps[h] = first
			continue
		}
		n := fv.fresh(h, fv.eng.sc.heaps[h])
		for _, s := range live {
			fv.assumes = append(fv.assumes, "(=> "+s.pc+" (= "+n+" "+fv.heapOf(s, h)+"))")
		}
		out.heaps[h] = n
	}
	// alloc
	sameA := true
	for _, s := range live[1:] {
		if s.alloc != live[0].alloc {
			sameA = false
		}
	}
	if !sameA {
		n := fv.fresh("alloc", "Int")
		for _, s := range live {
			fv.assumes = append(fv.assumes, "(=> "+s.pc+" (= "+n+" "+s.alloc+"))")
		}
		out.alloc = n
	}
	// locks
	for p, v0 := range live[0].locks {
		same := true
		for _, s := range live[1:] {
			if s.locks[p] != v0 {
				same = false
			}
		}
		if !same {
			n := fv.fresh("lock", "Int")
			for _, s := range live {
				lv := s.locks[p]
				if lv == "" {
					lv = "0"
				}
				fv.assumes = append(fv.assumes, "(=> "+s.pc+" (= "+n+" "+lv+"))")
			}
			out.locks[p] = n
		}
	}
	return out
}

// heapOf returns the current term of a heap, creating the initial one on demand.
func (fv *FuncVerifier) heapOf(st *State, h string) string {
	if st.symHeaps != nil {
		// symbolic heap parameters of an opaque predicate definition
		st.symHeaps[h] = true
		return st.symPrefix + h
	}
	if t, ok := st.heaps[h]; ok {
		return t
	}
	// first use anywhere: the entry heap
	if fv.entry != nil {
		if t, ok := fv.entry.heaps[h]; ok {
			st.heaps[h] = t
			return t
		}
	}
	n := fmt.Sprintf("%s!0", h)
	fv.decls = append(fv.decls, fmt.Sprintf("(declare-fun %s () %s)", n, fv.eng.sc.heaps[h]))
	if fv.entry != nil {
		fv.entry.heaps[h] = n
	}
	st.heaps[h] = n
	fv.heapClosure(h, n, fv.alloc0)
	return n
}

// refTerms lists the reference-valued components of a value of type t.
func (fv *FuncVerifier) refTerms(term string, t types.Type, depth int) []string {
	if t == nil || depth > 2 {
		return nil
	}
	switch u := t.Underlying().(type) {
	case *types.Slice:
		return []string{sRef(term)}
	case *types.Pointer, *types.Map:
		return []string{term}
	case *types.Struct:
		n := fv.eng.sc.sortOf(t)
		var out []string
		for i := 0; i < u.NumFields(); i++ {
			f := u.Field(i)
			out = append(out, fv.refTerms("("+fv.eng.sc.fieldSel(n, f)+" "+term+")", f.Type(), depth+1)...)
		}
		return out
	}
	return nil
}

// heapClosure: every reference stored in heap term H is older than alloc.
func (fv *FuncVerifier) heapClosure(h, H, alloc string) {
	t := fv.eng.sc.tkeys[h]
	if t == nil || alloc == "" {
		return
	}
	var elem string
	var binders string
	switch {
	case strings.HasPrefix(h, "HS_"):
		elem = "(select (select " + H + " cr) ci)"
		binders = "((cr Int) (ci Int))"
	case strings.HasPrefix(h, "HMv_"):
		ks := fv.eng.sc.mapKeySort[h]
		if ks == "" {
			return
		}
		elem = "(select (select " + H + " cr) ck)"
		binders = "((cr Int) (ck " + ks + "))"
	case strings.HasPrefix(h, "HP_"):
		elem = "(select " + H + " cr)"
		binders = "((cr Int))"
	default:
		return
	}
	refs := fv.refTerms(elem, t, 0)
	var cs []string
	for _, r := range refs {
		cs = append(cs, "(< "+r+" "+alloc+")")
	}
	if len(cs) == 0 {
		return
	}
	body := cs[0]
	if len(cs) > 1 {
		body = "(and " + strings.Join(cs, " ") + ")"
	}
	ax := "(forall " + binders + " " + body + ")"
	if strings.HasSuffix(H, "!0") {
		// facts about entry heaps hold in every query of the function (they must survive dry runs)
		fv.entryAxioms = append(fv.entryAxioms, ax)
		fv.entryAxiomDecl = append(fv.entryAxiomDecl, len(fv.decls))
		return
	}
	fv.assumeGlobal(ax)
}

func (fv *FuncVerifier) allocRef(st *State) string {
	r := fv.fresh("ref", "Int")
	fv.assume(st, "(= "+r+" "+st.alloc+")")
	na := fv.fresh("alloc", "Int")
	fv.assume(st, "(= "+na+" (+ "+st.alloc+" 1))")
	st.alloc = na
	return r
}

// initialVar gives the (single) arbitrary region-entry value of a local declared outside the region.
func (fv *FuncVerifier) initialVar(o types.Object) string {
	if t, ok := fv.entry.vars[o]; ok {
		return t
	}
	if fv.regionInit == nil {
		fv.regionInit = map[types.Object]string{}
	}
	if t, ok := fv.regionInit[o]; ok {
		return t
	}
	n := fv.fresh(o.Name(), fv.eng.sc.sortOf(o.Type()))
	for _, c := range fv.eng.sc.typeInv(n, o.Type(), 0) {
		fv.assumeGlobal(c)
	}
	fv.regionInit[o] = n
	fv.entry.vars[o] = n
	return n
}
