package main

// Engine: package loading, per-function verification driver.

import (
	"fmt"
	"go/ast"
	"go/printer"
	"go/token"
	"go/types"
	"io"
	"os"
	"path/filepath"
	"sort"
	"strings"

	"golang.org/x/tools/go/packages"
)

type UFun struct {
	Name string
	Args []string
	Ret  string
}

type Engine struct {
	repoDir   string
	pkgs      map[string]*packages.Package // by import path
	allTypes  []*types.Package
	contracts *ContractSet
	sc        *sortCtx
	strs      map[string]string
	strOrder  []string
	globals   map[string]*types.Var
	globOrder []string
	gaddrs    map[string]bool
	funcRefs  map[string]bool
	dynTags   map[string]bool
	dynVals   map[string]string
	funcLits  map[string]*ast.FuncLit
	ufuns     map[string]*UFun
	axioms    []string
	mapLenKeys map[string]string
	mutatedGlobals map[types.Object]bool
	assignedGlobals map[types.Object]bool

	needStrConcat, needBitFns, needDyn, needErr, needStrCmp, needSubstr, needStrOfBytes, needMapLen bool
	havocAllSeen bool
	needStrExt bool
	sprintfFns map[string]*sprintfFn
	preds map[string]*predDef
	depPkgs map[string]*packages.Package
	predDecls []string
	overlay map[string][]byte
}

func newEngine(repoDir string) *Engine {
	return &Engine{repoDir: repoDir, pkgs: map[string]*packages.Package{}, contracts: newContractSet(), sc: newSortCtx(),
		strs: map[string]string{}, globals: map[string]*types.Var{}, gaddrs: map[string]bool{}, funcRefs: map[string]bool{}, dynTags: map[string]bool{}, dynVals: map[string]string{}, funcLits: map[string]*ast.FuncLit{}, ufuns: map[string]*UFun{}, mapLenKeys: map[string]string{}, mutatedGlobals: map[types.Object]bool{}, assignedGlobals: map[types.Object]bool{}, preds: map[string]*predDef{}, depPkgs: map[string]*packages.Package{}}
}

func writeExpr(w io.Writer, fset *token.FileSet, e ast.Node) {
	printer.Fprint(w, fset, e)
}

func (eng *Engine) load(patterns []string) error {
	cfg := &packages.Config{
		Mode:       packages.NeedName | packages.NeedFiles | packages.NeedSyntax | packages.NeedTypes | packages.NeedTypesInfo | packages.NeedImports | packages.NeedDeps | packages.NeedCompiledGoFiles,
		Dir:        eng.repoDir,
		BuildFlags: []string{"-tags=verif"},
		Env:        append(os.Environ(), "GOFLAGS=-mod=mod", "GOPROXY=off", "GOSUMDB=off", "GOTOOLCHAIN=local"),
		Overlay:    eng.overlay,
	}
	pkgs, err := packages.Load(cfg, patterns...)
	if err != nil {
		return err
	}
	seen := map[*types.Package]bool{}
	var depContracts []*packages.Package
	var walk func(p *packages.Package)
	walk = func(p *packages.Package) {
		if p.Types != nil && !seen[p.Types] {
			seen[p.Types] = true
			eng.allTypes = append(eng.allTypes, p.Types)
			depContracts = append(depContracts, p)
			// (in a fixed order: the order of contract files decides the numbering of ghost variables, and the
			// text of a query must not differ between two runs on the same source)
			var paths []string
			for k := range p.Imports {
				paths = append(paths, k)
			}
			sort.Strings(paths)
			for _, k := range paths {
				walk(p.Imports[k])
			}
		}
	}
	for _, p := range pkgs {
		if len(p.Errors) > 0 {
			return fmt.Errorf("package %s: %v", p.PkgPath, p.Errors)
		}
		eng.pkgs[p.PkgPath] = p
		walk(p)
		// assignments to package-level variables (for immutability of globals)
		for _, f := range p.Syntax {
			ast.Inspect(f, func(n ast.Node) bool {
				switch s := n.(type) {
				case *ast.AssignStmt:
					for _, l := range s.Lhs {
						eng.markAssigned(p, l)
					}
				case *ast.IncDecStmt:
					eng.markAssigned(p, s.X)
				case *ast.UnaryExpr:
					if s.Op == token.AND {
						eng.markAssigned(p, s.X)
					}
				}
				return true
			})
		}
	}
	// contracts of the loaded packages and of every dependency that carries a sidecar
	loaded := map[string]bool{}
	for _, f := range eng.contracts.Files {
		loaded[f] = true
	}
	for _, p := range depContracts {
		for _, f := range p.GoFiles {
			if filepath.Base(f) == "zz_contracts_verif.go" && !loaded[f] {
				loaded[f] = true
				if err := eng.contracts.loadContractFile(f, p.PkgPath); err != nil {
					return err
				}
			}
		}
		if _, isRoot := eng.pkgs[p.PkgPath]; !isRoot && len(p.Syntax) > 0 {
			eng.depPkgs[p.PkgPath] = p
		}
	}
	for _, u := range eng.contracts.UFuns {
		if _, ok := eng.ufuns[u.Name]; !ok {
			resolve := func(kind string) string {
				srt := ghostSort(kind)
				if srt != kind || strings.HasPrefix(kind, "(") {
					return srt
				}
				// a Go type of the declaring package
				for _, pm := range []map[string]*packages.Package{eng.pkgs, eng.depPkgs} {
					if pk, ok := pm[u.Pkg]; ok {
						if tv, err := types.Eval(pk.Fset, pk.Types, token.NoPos, kind); err == nil && tv.IsType() {
							return eng.sc.sortOf(tv.Type)
						}
					}
				}
				return srt
			}
			uf := &UFun{Name: "uf." + u.Name, Ret: resolve(u.Ret)}
			for _, a := range u.Args {
				uf.Args = append(uf.Args, resolve(a))
			}
			eng.ufuns[u.Name] = uf
		}
	}
	return nil
}

func (eng *Engine) markAssigned(p *packages.Package, l ast.Expr) {
	for {
		switch x := l.(type) {
		case *ast.ParenExpr:
			l = x.X
			continue
		case *ast.IndexExpr:
			l = x.X
			continue
		case *ast.SelectorExpr:
			if o, ok := p.TypesInfo.ObjectOf(x.Sel).(*types.Var); ok && o.Pkg() != nil && o.Parent() == o.Pkg().Scope() {
				eng.assignedGlobals[o] = true
				return
			}
			l = x.X
			continue
		case *ast.Ident:
			if o, ok := p.TypesInfo.ObjectOf(x).(*types.Var); ok && o.Pkg() != nil && o.Parent() == o.Pkg().Scope() {
				eng.assignedGlobals[o] = true
			}
		}
		return
	}
}

func (eng *Engine) strLit(s string) string {
	if n, ok := eng.strs[s]; ok {
		return n
	}
	n := fmt.Sprintf("strlit_%d", len(eng.strs))
	if s == "" {
		n = "gs.empty"
	}
	eng.strs[s] = n
	eng.strOrder = append(eng.strOrder, s)
	return n
}

func (eng *Engine) global(name string, o *types.Var) {
	if _, ok := eng.globals[name]; !ok {
		eng.globals[name] = o
		eng.globOrder = append(eng.globOrder, name)
	}
}
func (eng *Engine) globalAddr(name string) { eng.gaddrs[name] = true }
func (eng *Engine) funcRef(o *types.Func) string {
	n := "fn_" + sanitize(o.FullName())
	eng.funcRefs[n] = true
	return n
}

func isErrorType(t types.Type) bool {
	return types.Identical(t, types.Universe.Lookup("error").Type())
}

func (eng *Engine) globalImmutable(o *types.Var) bool {
	if isErrorType(o.Type()) {
		return true
	}
	if eng.assignedGlobals[o] {
		return false
	}
	// only for packages whose syntax we scanned
	if o.Pkg() != nil {
		if _, ok := eng.pkgs[o.Pkg().Path()]; ok {
			return true
		}
	}
	return false
}

func (eng *Engine) pkgOf(fn *types.Func) *types.Package { return fn.Pkg() }

func funcKey(fn *types.Func) string {
	sig := fn.Type().(*types.Signature)
	if r := sig.Recv(); r != nil {
		t := r.Type()
		if p, ok := t.(*types.Pointer); ok {
			t = p.Elem()
		}
		if n, ok := t.(*types.Named); ok {
			return n.Obj().Name() + "." + fn.Name()
		}
		if a, ok := t.(*types.Alias); ok {
			return a.Obj().Name() + "." + fn.Name()
		}
	}
	return fn.Name()
}

func (eng *Engine) contractFor(fn *types.Func) *Contract {
	if fn.Pkg() == nil {
		return nil
	}
	return eng.contracts.ByKey[fn.Pkg().Path()+"."+funcKey(fn)]
}

var pureExternalPrefixes = []string{
	"strings.", "strconv.", "bytes.Equal", "bytes.Compare", "bytes.HasPrefix", "bytes.HasSuffix", "bytes.Contains", "bytes.Index", "bytes.Count", "bytes.IndexByte",
	"fmt.Sprintf", "fmt.Sprint", "fmt.Errorf", "errors.", "net.ParseIP", "net.ParseCIDR", "net.CIDRMask", "(net.IP).", "(net.IPMask).", "(*net.IPNet).", "math.", "unicode", "time.",
	"github.com/dgryski/go-spooky.", "(io.Writer).", "(*bufio.Writer).", "(hash.Hash).", "(hash.Hash32).", "(io.Seeker).", "(io.WriteSeeker).", "(*bytes.Buffer).", "(io.Reader).", "(*bufio.Reader).",
	"os.Getenv", "runtime.NumCPU", "sort.Search", "path/filepath.", "(time.", "math/bits.", "encoding/base64.", "encoding/hex.",
}

func (eng *Engine) pureExternal(what string) bool {
	for _, p := range pureExternalPrefixes {
		if strings.HasPrefix(what, p) {
			return true
		}
	}
	return false
}

// findFunc locates a function declaration by key ("Func" or "Recv.Method") in a package.
func (eng *Engine) findFunc(p *packages.Package, key string) (*ast.FuncDecl, *types.Func) {
	for _, f := range p.Syntax {
		for _, d := range f.Decls {
			fd, ok := d.(*ast.FuncDecl)
			if !ok || fd.Body == nil {
				continue
			}
			o, ok := p.TypesInfo.Defs[fd.Name].(*types.Func)
			if !ok {
				continue
			}
			if funcKey(o) == key {
				return fd, o
			}
		}
	}
	return nil, nil
}

// ---------------- per-function verification ----------------

func (eng *Engine) verifyFunc(p *packages.Package, key string) (*FuncVerifier, error) {
	fkey := key
	if i := strings.Index(key, "@"); i >= 0 {
		fkey = key[:i]
	}
	fd, fo := eng.findFunc(p, fkey)
	if fd == nil {
		return nil, fmt.Errorf("function %s not found in %s", key, p.PkgPath)
	}
	c := eng.contracts.ByKey[p.PkgPath+"."+key]
	fv := &FuncVerifier{eng: eng, pkg: p, decl: fd, fnObj: fo, contract: c, name: p.Types.Name() + "." + key,
		closures: map[types.Object]*ast.FuncLit{}, boxed: map[types.Object]bool{}, occ: map[string]int{}, callOcc: map[string]int{}}
	if c == nil {
		fv.contract = &Contract{Key: key, Pkg: p.PkgPath, Loops: map[int]*LoopSpec{}, Flags: map[string]string{}, CallGhost: map[string]map[string]ast.Expr{}, Asserts: map[string][]Clause{}, Befores: map[string][]Clause{}}
		fv.modsAny = true
	}
	if fv.contract.Flags["noframe"] != "" {
		fv.modsAny = true
	}
	fv.scanBoxed(fd.Body)
	fv.scanAliases(fd.Body)
	// statement-anchored ghost snapshots
	fv.stmtSites = map[ast.Stmt]string{}
	for _, m := range []map[string][]Clause{fv.contract.BeforeLets, fv.contract.AfterLets, fv.contract.Befores, fv.contract.Asserts} {
		for key := range m {
			kind := strings.SplitN(strings.SplitN(key, "/", 2)[0], "#", 2)[0]
			switch kind {
			case "if", "for", "range", "switch", "select", "inc", "assign", "return", "send":
				if nd, ok := findNode(fd.Body, key).(ast.Stmt); ok && nd != nil {
					fv.stmtSites[nd] = key
				} else {
					return nil, fmt.Errorf("%s: let directive addresses a statement that does not exist: %s", key, key)
				}
			}
		}
	}
	sig := fo.Type().(*types.Signature)
	st := &State{vars: map[types.Object]string{}, ghost: map[string]Val{}, heaps: map[string]string{}, pc: "true", locks: map[string]string{}, anc: map[int]bool{0: true}}
	fv.entry = &State{vars: map[types.Object]string{}, ghost: map[string]Val{}, heaps: map[string]string{}, pc: "true", locks: map[string]string{}}
	fv.alloc0 = fv.fresh("alloc0", "Int")
	fv.assumeGlobal("(> " + fv.alloc0 + " 0)")
	st.alloc = fv.alloc0
	fv.entry.alloc = fv.alloc0
	// parameters
	bindParam := func(o *types.Var) {
		v := fv.freshTyped(o.Name()+"0", o.Type(), st)
		fv.inputs = append(fv.inputs, inputVar{Name: o.Name(), Term: v, Ty: o.Type()})
		fv.entry.vars[o] = v
		// references passed in are allocated before entry
		fv.assumeAllocated(v, o.Type(), 0)
		// the objects parameters point to hold values of their field types
		fv.assumePointeeInv(st, v, o.Type(), 0)
		if fv.boxed[o] {
			fv.declareVar(st, o, v)
		} else {
			st.vars[o] = v
		}
	}
	if sig.Recv() != nil && fd.Recv != nil && len(fd.Recv.List) > 0 && len(fd.Recv.List[0].Names) > 0 {
		o := p.TypesInfo.Defs[fd.Recv.List[0].Names[0]].(*types.Var)
		bindParam(o)
		if _, isPtr := o.Type().Underlying().(*types.Pointer); isPtr {
			fv.assumeGlobal("(not (= " + fv.entry.vars[o] + " 0))")
			fv.note("receiver assumed non-nil (checked as a precondition at verified call sites)")
		}
		st.ghost["recv"] = Val{T: fv.entry.vars[o], Ty: o.Type()}
		fv.entry.ghost["recv"] = st.ghost["recv"]
	}
	for _, f := range fd.Type.Params.List {
		for _, nm := range f.Names {
			if o, ok := p.TypesInfo.Defs[nm].(*types.Var); ok && o.Name() != "_" {
				bindParam(o)
			}
		}
	}
	fr := &frameCtx{sig: sig}
	if fd.Type.Results != nil {
		for _, f := range fd.Type.Results.List {
			for _, nm := range f.Names {
				if o, ok := p.TypesInfo.Defs[nm].(*types.Var); ok {
					if fv.contract.Region == "" {
						fv.declareVar(st, o, eng.sc.zero(o.Type()))
					}
					// (in a region the named results are ordinary enclosing locals: arbitrary at region entry)
					fr.results = append(fr.results, o)
				}
			}
		}
	}
	// ghost parameters
	for _, g := range fv.contract.Ghost {
		n := fv.fresh("ghost_"+g.Name, ghostSort(g.Kind))
		st.ghost[g.Name] = Val{T: n, Sort: ghostSort(g.Kind)}
		fv.entry.ghost[g.Name] = st.ghost[g.Name]
		fv.ghostIn = append(fv.ghostIn, inputVar{Name: g.Name, Term: n})
	}
	// ghost clock (time.Now() never goes backwards)
	{
		c0 := fv.fresh("clock0", "Int")
		fv.assumeGlobal("(>= " + c0 + " 0)")
		st.ghost["$clock"] = Val{T: c0, Sort: "Int"}
		fv.entry.ghost["$clock"] = st.ghost["$clock"]
	}
	// global ghost variables
	for _, g := range eng.contracts.GhostOrder {
		n := fv.fresh("gv_"+g, ghostSort(eng.contracts.GhostVars[g]))
		st.ghost[g] = Val{T: n, Sort: ghostSort(eng.contracts.GhostVars[g])}
		fv.entry.ghost[g] = st.ghost[g]
		if eng.contracts.GhostVars[g] == "nat" {
			fv.assumeGlobal("(>= " + n + " 0)") // a ghost counter
		}
	}
	// heaps mentioned so far belong to the entry state
	for h, t := range st.heaps {
		fv.entry.heaps[h] = t
	}
	fv.specPos = fd.Body.Rbrace
	entryPos := fd.Body.Lbrace
	body := fd.Body.List
	if fv.contract.Region != "" {
		rb, dropped, err := findRegion(fd.Body, fv.contract.Region)
		if err != nil {
			return nil, fmt.Errorf("%s: region %q: %v", key, fv.contract.Region, err)
		}
		body = rb
		fv.note("region " + fv.contract.Region + " of " + fkey + " verified in isolation (entry state arbitrary); dropped around it: " + strings.Join(dropped, ", "))
		// a region that is a function literal is verified against the literal's own signature
		if nd := findNode(fd.Body, strings.TrimSuffix(fv.contract.Region, "+")); nd != nil {
			var lit *ast.FuncLit
			switch x := nd.(type) {
			case *ast.FuncLit:
				lit = x
			case *ast.GoStmt:
				lit, _ = x.Call.Fun.(*ast.FuncLit)
			}
			if lit != nil {
				if lsig, ok := fv.typeOf(lit).(*types.Signature); ok {
					fr.sig = lsig
					fr.results = nil
					if lit.Type.Results != nil {
						for _, f := range lit.Type.Results.List {
							for _, nm := range f.Names {
								if o, ok := p.TypesInfo.Defs[nm].(*types.Var); ok {
									fv.declareVar(st, o, eng.sc.zero(o.Type()))
									fr.results = append(fr.results, o)
								}
							}
						}
					}
				}
			}
		}
		if len(rb) > 0 {
			fv.specPos = rb[len(rb)-1].End()
			entryPos = rb[0].Pos()
			fv.regionStart = rb[0].Pos()
		}
	}
	// modifies + requires (evaluated in the entry state)
	var errs []string
	for _, m := range fv.contract.Modifies {
		fv.mods = append(fv.mods, fv.modRegions(fv.ownEnvAt(st, &errs, entryPos), m.Expr)...)
	}
	for _, r := range fv.contract.Requires {
		g := fv.ownEnvAt(st, &errs, entryPos).eval(r.Expr)
		fv.assumeGlobal(g.T)
	}
	for h, t := range st.heaps {
		if _, ok := fv.entry.heaps[h]; !ok {
			fv.entry.heaps[h] = t
		}
	}
	fv.nEntry = len(fv.assumes)
	fv.frames = []*frameCtx{fr}
	fv.execBlock(st, body)
	if !st.dead {
		fv.curPos = fd.Body.Rbrace
		fv.doReturn(st, fr, nil, nil)
	}
	if len(errs) > 0 {
		fv.unsupp = append(fv.unsupp, "spec errors: "+strings.Join(errs, "; "))
	}
	return fv, nil
}

// assumeAllocated: every reference reachable (one level) from an input is older than alloc0.
func (fv *FuncVerifier) assumeAllocated(term string, t types.Type, depth int) {
	if depth > 2 {
		return
	}
	switch u := t.Underlying().(type) {
	case *types.Slice:
		fv.assumeGlobal("(< " + sRef(term) + " " + fv.alloc0 + ")")
	case *types.Pointer, *types.Map:
		fv.assumeGlobal("(< " + term + " " + fv.alloc0 + ")")
	case *types.Struct:
		n := fv.eng.sc.sortOf(t)
		for i := 0; i < u.NumFields(); i++ {
			f := u.Field(i)
			fv.assumeAllocated("("+fv.eng.sc.fieldSel(n, f)+" "+term+")", f.Type(), depth+1)
		}
	}
}

// scanBoxed finds local variables whose address is taken or (arrays) that are sliced.
func (fv *FuncVerifier) scanBoxed(body *ast.BlockStmt) {
	info := fv.info()
	mark := func(e ast.Expr) {
		if id, ok := unparen(e).(*ast.Ident); ok {
			if o, ok := info.ObjectOf(id).(*types.Var); ok && !(o.Pkg() != nil && o.Parent() == o.Pkg().Scope()) {
				fv.boxed[o] = true
			}
		}
	}
	ast.Inspect(body, func(n ast.Node) bool {
		switch x := n.(type) {
		case *ast.UnaryExpr:
			if x.Op == token.AND {
				mark(x.X)
			}
		case *ast.SliceExpr:
			if t := info.TypeOf(x.X); t != nil {
				if _, ok := t.Underlying().(*types.Array); ok {
					mark(x.X)
				}
			}
		case *ast.CallExpr:
			// method call with pointer receiver on addressable variable: x.M() where M has ptr receiver
			if sel, ok := x.Fun.(*ast.SelectorExpr); ok {
				if s, ok := info.Selections[sel]; ok && s.Kind() == types.MethodVal {
					fn := s.Obj().(*types.Func)
					sig := fn.Type().(*types.Signature)
					if sig.Recv() != nil {
						if _, wantPtr := sig.Recv().Type().Underlying().(*types.Pointer); wantPtr {
							if t := info.TypeOf(sel.X); t != nil {
								if _, havePtr := t.Underlying().(*types.Pointer); !havePtr {
									if _, isIface := t.Underlying().(*types.Interface); !isIface {
										mark(sel.X)
									}
								}
							}
						}
					}
				}
			}
		}
		return true
	})
}

// ownEnv builds a spec environment for the function's own contract at the current position.
func (fv *FuncVerifier) ownEnv(st *State, errs *[]string) *specEnv {
	return fv.ownEnvAt(st, errs, fv.curPos)
}

func (fv *FuncVerifier) ownEnvAt(st *State, errs *[]string, pos token.Pos) *specEnv {
	scope := fv.pkg.Types.Scope().Innermost(pos)
	lookupObj := func(name string) *types.Var {
		if scope == nil {
			return nil
		}
		_, o := scope.LookupParent(name, pos)
		if v, ok := o.(*types.Var); ok {
			if v.Pkg() != nil && v.Parent() == v.Pkg().Scope() {
				return nil
			}
			return v
		}
		// loop-scoped variables (for i := ...): search function scopes for a unique variable of that name
		if v := fv.findLocalByName(name, pos); v != nil {
			return v
		}
		// ghost snapshot bound by a let directive
		return fv.letVars[name]
	}
	env := &specEnv{fv: fv, st: st, old: fv.entry, vars: map[string]Val{}, err: errs, pkgScope: fv.pkg.Types.Scope()}
	env.resolve = func(name string) (Val, bool) {
		o := lookupObj(name)
		if o == nil {
			return Val{}, false
		}
		if _, ok := env.st.vars[o]; !ok {
			if fv.contract.Region == "" || env.st == fv.entry {
				return Val{}, false
			}
			// region mode: locals of the enclosing function have arbitrary values at region entry
		}
		return fv.readVar(env.st, o), true
	}
	env.addrOf = func(name string) (string, bool) {
		o := lookupObj(name)
		if o == nil || !fv.boxed[o] {
			return "", false
		}
		t, ok := env.st.vars[o]
		return t, ok
	}
	env.resolveOld = func(name string) (Val, bool) {
		o := lookupObj(name)
		if o == nil {
			return Val{}, false
		}
		if t, ok := fv.entry.vars[o]; ok {
			return Val{T: t, Ty: o.Type()}, true
		}
		if fv.regionStart.IsValid() && o.Pos() < fv.regionStart && !fv.boxed[o] {
			return Val{T: fv.initialVar(o), Ty: o.Type()}, true
		}
		return Val{}, false
	}
	return env
}

// findLocalByName searches scopes nested in the function for a variable (used for loop-scoped names).
func (fv *FuncVerifier) findLocalByName(name string, pos token.Pos) *types.Var {
	fscope := fv.info().Scopes[fv.decl.Type]
	if fscope == nil {
		return nil
	}
	var best *types.Var
	var walk func(s *types.Scope)
	walk = func(s *types.Scope) {
		if o, ok := s.Lookup(name).(*types.Var); ok {
			// prefer the innermost scope that contains pos or starts at/after pos closest
			if best == nil || (s.Contains(pos) || (o.Pos() >= pos && (best.Pos() < pos || o.Pos() < best.Pos()))) {
				if best == nil || s.Contains(pos) || !fscopeContains(fv, best, pos) {
					best = o
				}
			}
		}
		for i := 0; i < s.NumChildren(); i++ {
			walk(s.Child(i))
		}
	}
	walk(fscope)
	return best
}

func fscopeContains(fv *FuncVerifier, v *types.Var, pos token.Pos) bool {
	return v.Parent() != nil && v.Parent().Contains(pos)
}

func (fv *FuncVerifier) checkPost(st *State, final []Val, at ast.Node) {
	if at != nil {
		fv.curPos = at.Pos()
	}
	var errs []string
	if fv.contract != nil && fv.contract.Flags["noalloc"] != "" {
		// callers rely on this function allocating nothing (see callContract)
		fv.oblige(st, "post", "[noalloc] the function allocates no object", "(= "+st.alloc+" "+fv.alloc0+")")
	}
	env := fv.ownEnvAt(st, &errs, fv.specPos)
	// in postconditions parameter names denote the entry values (parameters are mutable locals in Go)
	cur := env.resolve
	isParam := map[string]bool{}
	for _, in := range fv.inputs {
		isParam[in.Name] = true
	}
	env.resolve = func(name string) (Val, bool) {
		if isParam[name] {
			if v, ok := env.resolveOld(name); ok {
				v.St = nil
				return v, true
			}
		}
		return cur(name)
	}
	for i, v := range final {
		env.vars[fmt.Sprintf("result%d", i)] = v
		if i == 0 {
			shadow := false
			if sc := fv.pkg.Types.Scope().Innermost(fv.specPos); sc != nil {
				if _, o := sc.LookupParent("result", fv.specPos); o != nil {
					if _, isVar := o.(*types.Var); isVar {
						shadow = true
					}
				}
			}
			if !shadow {
				env.vars["result"] = v
			}
		}
		if i == len(final)-1 && v.Ty != nil && isErrorType(v.Ty) && len(fv.frames[0].results) == 0 {
			env.vars["err"] = v
		}
	}
	// ghost results: witnesses computed from the state at this return site
	retPos := fv.specPos
	if at != nil {
		retPos = at.Pos()
	}
	for _, gr := range fv.contract.GhostRet {
		var gerrs []string
		genv := fv.ownEnvAt(st, &gerrs, retPos)
		v := genv.eval(gr.Expr)
		if len(gerrs) > 0 {
			v = Val{T: fv.fresh("ghostret_"+gr.Name, ghostSort(gr.Kind))}
		}
		env.vars[gr.Name] = Val{T: v.T, Sort: ghostSort(gr.Kind)}
	}
	for i, en := range fv.contract.Ensures {
		g := env.eval(en.Expr)
		nb := len(fv.obls)
		fv.oblige(st, "post", fmt.Sprintf("[%s] %s", clauseName(en, i), en.Text), g.T)
		if len(fv.obls) > nb && len(fv.contract.GhostRet) > 0 {
			o := fv.obls[len(fv.obls)-1]
			o.GhostRet = map[string]string{}
			for _, gr := range fv.contract.GhostRet {
				o.GhostRet[gr.Name] = env.vars[gr.Name].T
			}
		}
	}
	// lock balance: every lock acquired by the function is released on return
	var lks []string
	for p := range st.locks {
		lks = append(lks, p)
	}
	sort.Strings(lks)
	for _, p := range lks {
		entry := fv.entry.locks[p]
		if entry == "" {
			entry = "0"
		}
		fv.oblige(st, "lock-balance", p, "(= "+st.locks[p]+" "+entry+")")
	}
	if len(errs) > 0 {
		fv.unsupp = append(fv.unsupp, "spec errors in ensures: "+strings.Join(errs, "; "))
	}
}

func (fv *FuncVerifier) lockTerm(st *State, path string) string {
	path = strings.ReplaceAll(path, " ", "")
	if t, ok := st.locks[path]; ok {
		return t
	}
	n := "lock0_" + sanitize(path)
	if _, ok := fv.entry.locks[path]; !ok {
		fv.decls = append(fv.decls, "(declare-fun "+n+" () Int)")
		fv.entry.locks[path] = n
		// unless the contract speaks about held(...), locks are not held by the caller on entry
		mentions := false
		for _, r := range fv.contract.Requires {
			if strings.Contains(r.Text, "held(") {
				mentions = true
			}
		}
		if !mentions {
			fv.assumeGlobal("(= " + n + " 0)")
			fv.note("locks are assumed not to be held by the calling goroutine on entry (unless required otherwise)")
		} else {
			fv.assumeGlobal("(and (<= 0 " + n + ") (<= " + n + " 2))")
		}
	}
	st.locks[path] = n
	return n
}

// findRegion resolves a structural path like "for#0/select#0/case#0" to a statement list.
func findRegion(body *ast.BlockStmt, path string) ([]ast.Stmt, []string, error) {
	// a trailing "+" continues with the statements that follow the enclosing select/switch/loop in its block
	if strings.HasSuffix(path, "+") {
		stmts, dropped, err := findRegion(body, strings.TrimSuffix(path, "+"))
		if err != nil {
			return nil, nil, err
		}
		steps := strings.Split(strings.TrimSuffix(path, "+"), "/")
		var outer ast.Node
		if len(steps) >= 2 {
			// the statement containing the final clause is addressed by all but the last step
			outer = findNode(body, strings.Join(steps[:len(steps)-1], "/"))
		}
		if outer != nil {
			var rest []ast.Stmt
			ast.Inspect(body, func(n ast.Node) bool {
				if blk, ok := n.(*ast.BlockStmt); ok {
					for i, s := range blk.List {
						if s == outer {
							rest = blk.List[i+1:]
						}
					}
				}
				return rest == nil
			})
			stmts = append(append([]ast.Stmt{}, stmts...), rest...)
		}
		return stmts, dropped, nil
	}
	var cur ast.Node = body
	var dropped []string
	for _, step := range strings.Split(path, "/") {
		parts := strings.SplitN(step, "#", 2)
		kind := parts[0]
		k := 0
		if len(parts) == 2 {
			fmt.Sscanf(parts[1], "%d", &k)
		}
		var found ast.Node
		n := 0
		if kind == "case" {
			var list []ast.Stmt
			switch x := cur.(type) {
			case *ast.SelectStmt:
				list = x.Body.List
			case *ast.SwitchStmt:
				list = x.Body.List
			case *ast.TypeSwitchStmt:
				list = x.Body.List
			default:
				return nil, nil, fmt.Errorf("case outside select/switch")
			}
			if k >= len(list) {
				return nil, nil, fmt.Errorf("no case #%d", k)
			}
			found = list[k]
		} else {
			ast.Inspect(cur, func(nd ast.Node) bool {
				if found != nil || nd == nil || nd == cur {
					return found == nil
				}
				match := false
				switch nd.(type) {
				case *ast.ForStmt:
					match = kind == "for"
				case *ast.RangeStmt:
					match = kind == "range"
				case *ast.SelectStmt:
					match = kind == "select"
				case *ast.SwitchStmt:
					match = kind == "switch"
				case *ast.IfStmt:
					match = kind == "if"
				case *ast.GoStmt:
					match = kind == "go"
				case *ast.FuncLit:
					match = kind == "funclit"
				}
				if match {
					if n == k {
						found = nd
						return false
					}
					n++
				}
				return true
			})
		}
		if found == nil {
			return nil, nil, fmt.Errorf("step %s not found", step)
		}
		dropped = append(dropped, fmt.Sprintf("%T", cur))
		cur = found
	}
	switch x := cur.(type) {
	case *ast.CommClause:
		return x.Body, dropped, nil
	case *ast.CaseClause:
		return x.Body, dropped, nil
	case *ast.ForStmt:
		return x.Body.List, dropped, nil
	case *ast.RangeStmt:
		return x.Body.List, dropped, nil
	case *ast.IfStmt:
		return x.Body.List, dropped, nil
	case *ast.FuncLit:
		return x.Body.List, dropped, nil
	case *ast.GoStmt:
		if fl, ok := x.Call.Fun.(*ast.FuncLit); ok {
			return fl.Body.List, dropped, nil
		}
	}
	return nil, nil, fmt.Errorf("path does not end in a block")
}

// assumePointeeInv assumes the type invariants of the struct a pointer parameter points to (entry heap).
func (fv *FuncVerifier) assumePointeeInv(st *State, term string, t types.Type, depth int) {
	if depth > 1 {
		return
	}
	p, ok := t.Underlying().(*types.Pointer)
	if !ok {
		return
	}
	su, ok := p.Elem().Underlying().(*types.Struct)
	if !ok {
		return
	}
	h := fv.eng.sc.ptrHeap(p.Elem())
	cell := "(select " + fv.heapOf(st, h) + " " + term + ")"
	for _, c := range fv.eng.sc.typeInv(cell, p.Elem(), 0) {
		fv.assumeGlobal(c)
	}
	n := fv.eng.sc.sortOf(p.Elem())
	for i := 0; i < su.NumFields(); i++ {
		f := su.Field(i)
		if _, isPtr := f.Type().Underlying().(*types.Pointer); isPtr {
			ft := "(" + fv.eng.sc.fieldSel(n, f) + " " + cell + ")"
			fv.assumeGlobal("(< " + ft + " " + fv.alloc0 + ")")
			fv.assumePointeeInv(st, ft, f.Type(), depth+1)
		}
	}
}

// findNode resolves a structural path to the node itself.
func findNode(body *ast.BlockStmt, path string) ast.Node {
	var cur ast.Node = body
	for _, step := range strings.Split(path, "/") {
		parts := strings.SplitN(step, "#", 2)
		kind := parts[0]
		k := 0
		if len(parts) == 2 {
			fmt.Sscanf(parts[1], "%d", &k)
		}
		var found ast.Node
		n := 0
		ast.Inspect(cur, func(nd ast.Node) bool {
			if found != nil || nd == nil || nd == cur {
				return found == nil
			}
			match := false
			switch nd.(type) {
			case *ast.ForStmt:
				match = kind == "for"
			case *ast.RangeStmt:
				match = kind == "range"
			case *ast.SelectStmt:
				match = kind == "select"
			case *ast.SwitchStmt:
				match = kind == "switch"
			case *ast.IfStmt:
				match = kind == "if"
			case *ast.FuncLit:
				match = kind == "funclit"
			case *ast.GoStmt:
				match = kind == "go"
			case *ast.IncDecStmt:
				match = kind == "inc"
			case *ast.AssignStmt:
				match = kind == "assign"
			case *ast.ReturnStmt:
				match = kind == "return"
			case *ast.SendStmt:
				match = kind == "send"
			}
			if match {
				if n == k {
					found = nd
					return false
				}
				n++
			}
			return true
		})
		if found == nil {
			return nil
		}
		cur = found
	}
	return cur
}

// scanAliases finds locals of the form  x := &p.f[.g...]  (p a pointer-typed variable, x never reassigned):
// such an interior pointer is treated as a name for the location p.f..., so reads and writes through x are
// reads and writes of the enclosing object.
func (fv *FuncVerifier) scanAliases(body *ast.BlockStmt) {
	info := fv.info()
	fv.aliases = map[types.Object]ast.Expr{}
	assigned := map[types.Object]int{}
	ast.Inspect(body, func(n ast.Node) bool {
		switch s := n.(type) {
		case *ast.AssignStmt:
			for _, l := range s.Lhs {
				if id, ok := l.(*ast.Ident); ok {
					if o := info.ObjectOf(id); o != nil {
						assigned[o]++
					}
				}
			}
		case *ast.IncDecStmt:
			if id, ok := s.X.(*ast.Ident); ok {
				if o := info.ObjectOf(id); o != nil {
					assigned[o]++
				}
			}
		}
		return true
	})
	rootIsPtrVar := func(e ast.Expr) bool {
		for {
			switch x := e.(type) {
			case *ast.SelectorExpr:
				if sel, ok := info.Selections[x]; !ok || sel.Kind() != types.FieldVal {
					return false
				}
				e = x.X
			case *ast.ParenExpr:
				e = x.X
			case *ast.Ident:
				o, ok := info.ObjectOf(x).(*types.Var)
				if !ok {
					return false
				}
				if _, isAlias := fv.aliases[o]; isAlias {
					return true
				}
				_, isPtr := o.Type().Underlying().(*types.Pointer)
				return isPtr && assigned[o] <= 1
			default:
				return false
			}
		}
	}
	ast.Inspect(body, func(n ast.Node) bool {
		s, ok := n.(*ast.AssignStmt)
		if !ok || s.Tok != token.DEFINE || len(s.Lhs) != 1 || len(s.Rhs) != 1 {
			return true
		}
		id, ok := s.Lhs[0].(*ast.Ident)
		if !ok {
			return true
		}
		u, ok := unparen(s.Rhs[0]).(*ast.UnaryExpr)
		if !ok || u.Op != token.AND {
			return true
		}
		sel, ok := unparen(u.X).(*ast.SelectorExpr)
		if !ok {
			return true
		}
		o := info.ObjectOf(id)
		if o == nil || assigned[o] != 1 {
			return true
		}
		if t := info.TypeOf(sel); t == nil {
			return true
		} else if _, isStruct := t.Underlying().(*types.Struct); !isStruct {
			return true
		}
		if rootIsPtrVar(sel) {
			fv.aliases[o] = sel
			delete(fv.boxed, o)
		}
		return true
	})
}
