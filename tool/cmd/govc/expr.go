package main

// Evaluation of Go expressions (code mode) to SMT terms, with safety obligations.

import (
	"fmt"
	"go/ast"
	"go/constant"
	"go/token"
	"go/types"
	"math/big"
	"strconv"
	"strings"
)

func (fv *FuncVerifier) info() *types.Info { return fv.pkg.TypesInfo }

func (fv *FuncVerifier) typeOf(e ast.Expr) types.Type {
	if tv, ok := fv.info().Types[e]; ok {
		return tv.Type
	}
	if id, ok := e.(*ast.Ident); ok {
		if o := fv.info().ObjectOf(id); o != nil {
			return o.Type()
		}
	}
	return nil
}

func (fv *FuncVerifier) exprText(e ast.Expr) string {
	var b strings.Builder
	writeExpr(&b, fv.pkg.Fset, e)
	return b.String()
}

func smtInt(v *big.Int) string {
	if v.Sign() < 0 {
		return "(- " + new(big.Int).Neg(v).String() + ")"
	}
	return v.String()
}

func (fv *FuncVerifier) constVal(v constant.Value, t types.Type) (Val, bool) {
	switch v.Kind() {
	case constant.Bool:
		if constant.BoolVal(v) {
			return Val{T: "true", Ty: t}, true
		}
		return Val{T: "false", Ty: t}, true
	case constant.Int:
		if t != nil && isFloat(t) {
			return Val{T: smtReal(v), Ty: t}, true
		}
		bi, ok := new(big.Int).SetString(v.ExactString(), 10)
		if !ok {
			return Val{}, false
		}
		return Val{T: smtInt(bi), Ty: t}, true
	case constant.String:
		return Val{T: fv.eng.strLit(constant.StringVal(v)), Ty: t}, true
	case constant.Float:
		if t != nil && isInteger(t) {
			if i, ok := constant.Int64Val(constant.ToInt(v)); ok {
				return Val{T: smtInt(big.NewInt(i)), Ty: t}, true
			}
		}
		return Val{T: smtReal(v), Ty: t}, true
	}
	return Val{}, false
}

func smtReal(v constant.Value) string {
	f, _ := constant.Float64Val(v)
	r := new(big.Rat).SetFloat64(f)
	if r == nil {
		return "0.0"
	}
	num, den := r.Num(), r.Denom()
	s := "(/ " + new(big.Int).Abs(num).String() + ".0 " + den.String() + ".0)"
	if num.Sign() < 0 {
		s = "(- " + s + ")"
	}
	return s
}

// wrap reduces a mathematical integer term into the range of type t.
func (fv *FuncVerifier) wrap(term string, t types.Type) string {
	if t == nil || !isInteger(t) {
		return term
	}
	w, signed := intWidth(t)
	if w == 0 {
		return term
	}
	if !signed {
		return "(mod " + term + " " + pow2(w) + ")"
	}
	if w == 64 {
		fv.note("int/int64 arithmetic treated as mathematical (no 64-bit signed overflow modelled)")
		return term
	}
	return "(- (mod (+ " + term + " " + pow2(w-1) + ") " + pow2(w) + ") " + pow2(w-1) + ")"
}

func isNumeral(s string) bool {
	if s == "" {
		return false
	}
	for _, c := range s {
		if c < '0' || c > '9' {
			return false
		}
	}
	return true
}

func tdiv(a, b string) string {
	return "(ite (>= " + a + " 0) (ite (> " + b + " 0) (div " + a + " " + b + ") (- (div " + a + " (- " + b + ")))) (ite (> " + b + " 0) (- (div (- " + a + ") " + b + ")) (div (- " + a + ") (- " + b + "))))"
}

func pow2big(k int) string { return new(big.Int).Lsh(big.NewInt(1), uint(k)).String() }

// arith computes a binary arithmetic operation at Go type t (operands already evaluated).
func (fv *FuncVerifier) arith(st *State, op token.Token, a, b Val, t types.Type, text string) string {
	if isFloat(t) {
		switch op {
		case token.ADD:
			return "(+ " + a.T + " " + b.T + ")"
		case token.SUB:
			return "(- " + a.T + " " + b.T + ")"
		case token.MUL:
			return "(* " + a.T + " " + b.T + ")"
		case token.QUO:
			return "(/ " + a.T + " " + b.T + ")"
		}
	}
	if isString(t) && op == token.ADD {
		fv.eng.needStrConcat = true
		return "(gs.cat " + a.T + " " + b.T + ")"
	}
	unsigned := isUnsigned(t)
	switch op {
	case token.ADD:
		return fv.wrap("(+ "+a.T+" "+b.T+")", t)
	case token.SUB:
		return fv.wrap("(- "+a.T+" "+b.T+")", t)
	case token.MUL:
		return fv.wrap("(* "+a.T+" "+b.T+")", t)
	case token.QUO:
		if !(isNumeral(b.T) && b.T != "0") {
			fv.oblige(st, "div", text, "(not (= "+b.T+" 0))")
		}
		if unsigned {
			return "(div " + a.T + " " + b.T + ")"
		}
		return fv.wrap(tdiv(a.T, b.T), t)
	case token.REM:
		if !(isNumeral(b.T) && b.T != "0") {
			fv.oblige(st, "div", text, "(not (= "+b.T+" 0))")
		}
		if unsigned {
			return "(mod " + a.T + " " + b.T + ")"
		}
		return "(- " + a.T + " (* " + b.T + " " + tdiv(a.T, b.T) + "))"
	case token.SHL:
		if isNumeral(b.T) {
			k, _ := strconv.Atoi(b.T)
			return fv.wrap("(* "+a.T+" "+pow2big(k)+")", t)
		}
		fv.eng.needBitFns = true
		return fv.wrap("(* "+a.T+" (pow2f "+b.T+"))", t)
	case token.SHR:
		if isNumeral(b.T) {
			k, _ := strconv.Atoi(b.T)
			return "(div " + a.T + " " + pow2big(k) + ")"
		}
		fv.eng.needBitFns = true
		return "(div " + a.T + " (pow2f " + b.T + "))"
	case token.AND:
		if isNumeral(b.T) {
			if k, ok := maskBits(b.T); ok && (unsigned || true) {
				return "(mod " + a.T + " " + pow2big(k) + ")"
			}
			if b.T == "0" {
				return "0"
			}
		}
		if isNumeral(a.T) {
			if k, ok := maskBits(a.T); ok {
				return "(mod " + b.T + " " + pow2big(k) + ")"
			}
		}
		fv.eng.needBitFns = true
		return "(bit.and " + a.T + " " + b.T + ")"
	case token.OR:
		fv.eng.needBitFns = true
		return "(bit.or " + a.T + " " + b.T + ")"
	case token.XOR:
		// x ^ all-ones of an unsigned type is exact arithmetic: (2^w - 1) - x
		if w, signed := intWidth(t); w > 0 && !signed {
			ones := new(big.Int).Sub(new(big.Int).Lsh(big.NewInt(1), uint(w)), big.NewInt(1)).String()
			if b.T == ones {
				return "(- " + ones + " " + a.T + ")"
			}
			if a.T == ones {
				return "(- " + ones + " " + b.T + ")"
			}
		}
		fv.eng.needBitFns = true
		return "(bit.xor " + a.T + " " + b.T + ")"
	case token.AND_NOT:
		fv.eng.needBitFns = true
		return "(bit.andnot " + a.T + " " + b.T + ")"
	}
	fv.unsupported("binary operator " + op.String())
	return fv.fresh("unk", fv.eng.sc.sortOf(t))
}

func maskBits(num string) (int, bool) {
	v, ok := new(big.Int).SetString(num, 10)
	if !ok {
		return 0, false
	}
	v1 := new(big.Int).Add(v, big.NewInt(1))
	if v1.Sign() > 0 && new(big.Int).And(v1, v).Sign() == 0 {
		return v1.BitLen() - 1, true
	}
	return 0, false
}

func (fv *FuncVerifier) unsupported(what string) {
	fv.unsupp = append(fv.unsupp, what)
}

// havocVal returns an unconstrained value of the type (with type invariant).
func (fv *FuncVerifier) havocVal(st *State, base string, t types.Type) Val {
	n := fv.fresh(base, fv.eng.sc.sortOf(t))
	for _, c := range fv.eng.sc.typeInv(n, t, 0) {
		fv.assumeGlobal(c)
	}
	return Val{T: n, Ty: t}
}

// equality of two values of Go type t (Go semantics).
func (fv *FuncVerifier) eqTerm(a, b string, t types.Type) string {
	if t == nil {
		return "(= " + a + " " + b + ")"
	}
	switch u := t.Underlying().(type) {
	case *types.Array:
		n := int(u.Len())
		if n <= 64 {
			parts := []string{}
			for i := 0; i < n; i++ {
				parts = append(parts, fv.eqTerm(fmt.Sprintf("(select %s %d)", a, i), fmt.Sprintf("(select %s %d)", b, i), u.Elem()))
			}
			if len(parts) == 0 {
				return "true"
			}
			if len(parts) == 1 {
				return parts[0]
			}
			return "(and " + strings.Join(parts, " ") + ")"
		}
		return fmt.Sprintf("(forall ((qi Int)) (=> (and (<= 0 qi) (< qi %d)) %s))", n, fv.eqTerm("(select "+a+" qi)", "(select "+b+" qi)", u.Elem()))
	case *types.Struct:
		n := fv.eng.sc.sortOf(t)
		parts := []string{}
		for i := 0; i < u.NumFields(); i++ {
			f := u.Field(i)
			sel := fv.eng.sc.fieldSel(n, f)
			parts = append(parts, fv.eqTerm("("+sel+" "+a+")", "("+sel+" "+b+")", f.Type()))
		}
		if len(parts) == 0 {
			return "true"
		}
		if len(parts) == 1 {
			return parts[0]
		}
		return "(and " + strings.Join(parts, " ") + ")"
	case *types.Slice:
		// only comparison with nil is legal
		if b == "(mkSlice 0 0 0 0)" || b == "0" {
			return "(= " + sRef(a) + " 0)"
		}
		if a == "(mkSlice 0 0 0 0)" || a == "0" {
			return "(= " + sRef(b) + " 0)"
		}
	}
	return "(= " + a + " " + b + ")"
}

// eval evaluates a code expression.
func (fv *FuncVerifier) eval(st *State, e ast.Expr) Val {
	if e == nil {
		return Val{T: "0"}
	}
	if e.Pos().IsValid() {
		fv.curPos = e.Pos()
	}
	t := fv.typeOf(e)
	if tv, ok := fv.info().Types[e]; ok && tv.Value != nil {
		if v, ok := fv.constVal(tv.Value, t); ok {
			return v
		}
	}
	switch e := e.(type) {
	case *ast.ParenExpr:
		return fv.eval(st, e.X)
	case *ast.BasicLit:
		switch e.Kind {
		case token.INT:
			v, _ := new(big.Int).SetString(e.Value, 0)
			return Val{T: smtInt(v), Ty: t}
		case token.CHAR:
			r, _, _, _ := strconv.UnquoteChar(e.Value[1:len(e.Value)-1], '\'')
			return Val{T: strconv.Itoa(int(r)), Ty: t}
		case token.STRING:
			s, _ := strconv.Unquote(e.Value)
			return Val{T: fv.eng.strLit(s), Ty: t}
		}
	case *ast.Ident:
		return fv.evalIdent(st, e)
	case *ast.UnaryExpr:
		switch e.Op {
		case token.SUB:
			x := fv.eval(st, e.X)
			if isFloat(t) {
				return Val{T: "(- " + x.T + ")", Ty: t}
			}
			return Val{T: fv.wrap("(- "+x.T+")", t), Ty: t}
		case token.ADD:
			return fv.eval(st, e.X)
		case token.NOT:
			x := fv.eval(st, e.X)
			return Val{T: not(x.T), Ty: t}
		case token.XOR:
			x := fv.eval(st, e.X)
			w, signed := intWidth(t)
			if !signed && w > 0 {
				return Val{T: "(- " + new(big.Int).Sub(new(big.Int).Lsh(big.NewInt(1), uint(w)), big.NewInt(1)).String() + " " + x.T + ")", Ty: t}
			}
			return Val{T: "(- (- " + x.T + ") 1)", Ty: t}
		case token.AND:
			return fv.evalAddr(st, e.X, t)
		case token.ARROW:
			// channel receive: the value is arbitrary; what can be checked is the lock discipline around it
			fv.eval(st, e.X)
			fv.chanOp(st, fv.exprText(e))
			return fv.havocVal(st, "recv", t)
		}
	case *ast.BinaryExpr:
		return fv.evalBinary(st, e, t)
	case *ast.CallExpr:
		vs := fv.evalCall(st, e)
		if len(vs) == 0 {
			return Val{T: "0", Ty: t}
		}
		return vs[0]
	case *ast.IndexExpr:
		return fv.evalIndex(st, e, t)
	case *ast.SliceExpr:
		return fv.evalSlice(st, e, t)
	case *ast.SelectorExpr:
		return fv.evalSelector(st, e, t)
	case *ast.StarExpr:
		p := fv.eval(st, e.X)
		fv.oblige(st, "nil", fv.exprText(e), "(not (= "+p.T+" 0))")
		h := fv.eng.sc.ptrHeap(t)
		v := "(select " + fv.heapOf(st, h) + " " + p.T + ")"
		fv.assumeInv(st, v, t)
		return Val{T: v, Ty: t}
	case *ast.CompositeLit:
		return fv.evalComposite(st, e, t)
	case *ast.TypeAssertExpr:
		x := fv.eval(st, e.X)
		if e.Type == nil {
			return x
		}
		return fv.typeAssert(st, x, t, false, fv.exprText(e))[0]
	case *ast.FuncLit:
		r := fv.fresh("closure", "Int")
		fv.eng.funcLits[r] = e
		return Val{T: r, Ty: t}
	}
	fv.unsupported(fmt.Sprintf("expression %T %s", e, fv.exprText(e)))
	return fv.havocVal(st, "unk", t)
}

func (fv *FuncVerifier) assumeInv(st *State, term string, t types.Type) {
	for _, c := range fv.eng.sc.typeInv(term, t, 0) {
		fv.assumeGlobal(c)
	}
}

// dynamic type tags
func (fv *FuncVerifier) dynTag(t types.Type) string {
	fv.eng.needDyn = true
	k := "tag_" + typeKey(t)
	fv.eng.dynTags[k] = true
	return k
}

func (fv *FuncVerifier) typeAssert(st *State, x Val, t types.Type, commaOk bool, text string) []Val {
	fv.eng.needDyn = true
	if _, isIface := t.Underlying().(*types.Interface); isIface {
		// interface-to-interface assertion: succeeds iff non-nil and implements; abstract
		ok := fv.fresh("implok", "Bool")
		if !commaOk {
			fv.oblige(st, "typeassert", text, "(and (not (= "+x.T+" 0)) "+ok+")")
			return []Val{{T: x.T, Ty: t}}
		}
		fv.assume(st, "(=> "+ok+" (not (= "+x.T+" 0)))")
		return []Val{{T: ite(ok, x.T, "0"), Ty: t}, {T: ok, Ty: types.Typ[types.Bool]}}
	}
	tag := fv.dynTag(t)
	cond := "(and (not (= " + x.T + " 0)) (= (dyn.type " + x.T + ") " + tag + "))"
	var v Val
	switch t.Underlying().(type) {
	case *types.Pointer, *types.Map, *types.Chan, *types.Signature:
		v = Val{T: x.T, Ty: t}
	default:
		// boxed value: content is a function of the interface reference
		fn := "dyn.val_" + typeKey(t)
		fv.eng.dynVals[fn] = fv.eng.sc.sortOf(t)
		v = Val{T: "(" + fn + " " + x.T + ")", Ty: t}
		fv.assumeInv(st, v.T, t)
	}
	if !commaOk {
		fv.oblige(st, "typeassert", text, cond)
		return []Val{v}
	}
	return []Val{{T: ite(cond, v.T, fv.eng.sc.zero(t)), Ty: t}, {T: cond, Ty: types.Typ[types.Bool]}}
}

func (fv *FuncVerifier) evalIdent(st *State, id *ast.Ident) Val {
	obj := fv.info().ObjectOf(id)
	switch o := obj.(type) {
	case *types.Nil:
		t := fv.typeOf(id)
		if t != nil {
			if _, ok := t.Underlying().(*types.Slice); ok {
				return Val{T: "(mkSlice 0 0 0 0)", Ty: t}
			}
		}
		return Val{T: "0", Ty: t}
	case *types.Const:
		if v, ok := fv.constVal(o.Val(), o.Type()); ok {
			return v
		}
	case *types.Var:
		if tgt, ok := fv.aliases[o]; ok {
			return fv.evalAddr(st, tgt, o.Type())
		}
		return fv.readVar(st, o)
	case *types.Func:
		return Val{T: fv.eng.funcRef(o), Ty: o.Type()}
	case *types.Builtin:
		return Val{T: "0", Ty: nil}
	}
	if id.Name == "_" {
		return Val{T: "0"}
	}
	fv.unsupported("identifier " + id.Name)
	return fv.havocVal(st, id.Name, fv.typeOf(id))
}

func (fv *FuncVerifier) readVar(st *State, o *types.Var) Val {
	if o.Pkg() != nil && o.Parent() == o.Pkg().Scope() {
		return fv.readGlobal(st, o)
	}
	t, ok := st.vars[o]
	if !ok {
		// variable not yet seen (e.g. captured, or declared by construct we skipped)
		if fv.regionStart.IsValid() && o.Pos() < fv.regionStart && !fv.boxed[o] {
			// region mode: a local of the enclosing function has one arbitrary value at region entry
			t := fv.initialVar(o)
			st.vars[o] = t
			return Val{T: t, Ty: o.Type()}
		}
		v := fv.havocVal(st, o.Name(), o.Type())
		st.vars[o] = v.T
		return v
	}
	if fv.boxed[o] {
		if _, isArr := o.Type().Underlying().(*types.Array); isArr {
			return Val{T: fv.readBoxedArray(st, o), Ty: o.Type()}
		}
		h := fv.eng.sc.ptrHeap(o.Type())
		v := "(select " + fv.heapOf(st, h) + " " + t + ")"
		return Val{T: v, Ty: o.Type()}
	}
	return Val{T: t, Ty: o.Type()}
}

func (fv *FuncVerifier) readGlobal(st *State, o *types.Var) Val {
	name := "g_" + sanitize(o.Pkg().Name()+"_"+o.Name())
	fv.eng.global(name, o)
	if fv.eng.globalImmutable(o) {
		fv.note("package-level variable " + o.Pkg().Name() + "." + o.Name() + " assumed never reassigned after initialisation")
		fv.globalInit(st, name, o)
		return Val{T: name, Ty: o.Type()}
	}
	// mutable global: arbitrary value on each read
	fv.note("package-level variable " + o.Pkg().Name() + "." + o.Name() + " is mutable: read as arbitrary value")
	return fv.havocVal(st, name, o.Type())
}

func (fv *FuncVerifier) evalBinary(st *State, e *ast.BinaryExpr, t types.Type) Val {
	switch e.Op {
	case token.LAND, token.LOR:
		a := fv.eval(st, e.X)
		savePC := st.pc
		if e.Op == token.LAND {
			st.pc = fv.namePC(and(savePC, a.T))
		} else {
			st.pc = fv.namePC(and(savePC, not(a.T)))
		}
		before := st.clone()
		b := fv.eval(st, e.Y)
		if fv.stateChanged(before, st) {
			// side effects in the right operand: merge with the skipping path
			skip := before
			if e.Op == token.LAND {
				skip.pc = fv.namePC(and(savePC, not(a.T)))
			} else {
				skip.pc = fv.namePC(and(savePC, a.T))
			}
			m := fv.merge([]*State{st, skip})
			*st = *m
			st.pc = savePC
		} else {
			st.pc = savePC
		}
		if e.Op == token.LAND {
			return Val{T: and(a.T, b.T), Ty: t}
		}
		return Val{T: or(a.T, b.T), Ty: t}
	}
	a := fv.eval(st, e.X)
	b := fv.eval(st, e.Y)
	ot := fv.typeOf(e.X)
	if ot == nil || isUntyped(ot) {
		if t2 := fv.typeOf(e.Y); t2 != nil && !isUntyped(t2) {
			ot = t2
		}
	}
	switch e.Op {
	case token.EQL:
		return Val{T: fv.eqTerm(a.T, b.T, ot), Ty: t}
	case token.NEQ:
		return Val{T: not(fv.eqTerm(a.T, b.T, ot)), Ty: t}
	case token.LSS, token.LEQ, token.GTR, token.GEQ:
		if ot != nil && isString(ot) {
			fv.eng.needStrCmp = true
			op := map[token.Token]string{token.LSS: "gs.lt", token.LEQ: "gs.le", token.GTR: "gs.gt", token.GEQ: "gs.ge"}[e.Op]
			switch e.Op {
			case token.GTR:
				return Val{T: "(gs.lt " + b.T + " " + a.T + ")", Ty: t}
			case token.GEQ:
				return Val{T: "(gs.le " + b.T + " " + a.T + ")", Ty: t}
			}
			return Val{T: "(" + op + " " + a.T + " " + b.T + ")", Ty: t}
		}
		op := map[token.Token]string{token.LSS: "<", token.LEQ: "<=", token.GTR: ">", token.GEQ: ">="}[e.Op]
		return Val{T: "(" + op + " " + a.T + " " + b.T + ")", Ty: t}
	}
	if e.Op == token.SHL || e.Op == token.SHR {
		ot = fv.typeOf(e.X)
		if t != nil && !isUntyped(t) {
			ot = t
		}
	}
	rt := t
	if rt == nil || isUntyped(rt) {
		rt = ot
	}
	return Val{T: fv.arith(st, e.Op, a, b, rt, fv.exprText(e)), Ty: t}
}

func isUntyped(t types.Type) bool {
	b, ok := t.(*types.Basic)
	return ok && b.Info()&types.IsUntyped != 0
}

func (fv *FuncVerifier) stateChanged(a, b *State) bool {
	if a.alloc != b.alloc || len(a.heaps) != len(b.heaps) {
		for h, t := range b.heaps {
			if at, ok := a.heaps[h]; ok && at != t {
				return true
			}
		}
		if a.alloc != b.alloc {
			return true
		}
	}
	for h, t := range b.heaps {
		if at, ok := a.heaps[h]; ok && at != t {
			return true
		}
	}
	for k, t := range b.vars {
		if at, ok := a.vars[k]; ok && at != t {
			return true
		}
	}
	return false
}

// sliceParts gives (ref, off, len, cap) terms of a slice value.
func sRef(s string) string { return projSlice("s.ref", s, 0) }
func sOff(s string) string { return projSlice("s.off", s, 1) }
func sLen(s string) string { return projSlice("s.len", s, 2) }
func sCap(s string) string { return projSlice("s.cap", s, 3) }

func projSlice(sel, s string, idx int) string {
	if strings.HasPrefix(s, "(mkSlice ") {
		parts := splitTop(s[9 : len(s)-1])
		if len(parts) == 4 {
			return parts[idx]
		}
	}
	return "(" + sel + " " + s + ")"
}

// splitTop splits an s-expression argument list at top level.
func splitTop(s string) []string {
	var out []string
	d := 0
	start := -1
	for i := 0; i < len(s); i++ {
		c := s[i]
		if c == ' ' && d == 0 {
			if start >= 0 {
				out = append(out, s[start:i])
				start = -1
			}
			continue
		}
		if start < 0 {
			start = i
		}
		if c == '(' {
			d++
		} else if c == ')' {
			d--
		}
	}
	if start >= 0 {
		out = append(out, s[start:])
	}
	return out
}

func mkSlice(ref, off, ln, cp string) string {
	return "(mkSlice " + ref + " " + off + " " + ln + " " + cp + ")"
}

func plus(a, b string) string {
	if a == "0" {
		return b
	}
	if b == "0" {
		return a
	}
	if isNumeral(a) && isNumeral(b) {
		x, _ := new(big.Int).SetString(a, 10)
		y, _ := new(big.Int).SetString(b, 10)
		return x.Add(x, y).String()
	}
	return "(+ " + a + " " + b + ")"
}
func minus(a, b string) string {
	if b == "0" {
		return a
	}
	if a == b {
		return "0"
	}
	return "(- " + a + " " + b + ")"
}

func (fv *FuncVerifier) evalIndex(st *State, e *ast.IndexExpr, t types.Type) Val {
	xt := fv.typeOf(e.X)
	if xt == nil {
		fv.unsupported("index of untyped")
		return fv.havocVal(st, "unk", t)
	}
	// generic function instantiation f[T] is not an index
	if _, isSig := xt.Underlying().(*types.Signature); isSig {
		fv.unsupported("generic instantiation")
		return fv.havocVal(st, "unk", t)
	}
	x := fv.eval(st, e.X)
	text := fv.exprText(e)
	switch u := xt.Underlying().(type) {
	case *types.Slice:
		i := fv.eval(st, e.Index)
		fv.oblige(st, "bounds", text, "(and (<= 0 "+i.T+") (< "+i.T+" "+sLen(x.T)+"))")
		h := fv.eng.sc.sliceHeap(u.Elem())
		v := "(select (select " + fv.heapOf(st, h) + " " + sRef(x.T) + ") " + plus(sOff(x.T), i.T) + ")"
		fv.assumeInv(st, v, u.Elem())
		return Val{T: v, Ty: t}
	case *types.Array:
		i := fv.eval(st, e.Index)
		if !(isNumeral(i.T)) {
			fv.oblige(st, "bounds", text, fmt.Sprintf("(and (<= 0 %s) (< %s %d))", i.T, i.T, u.Len()))
		}
		v := "(select " + x.T + " " + i.T + ")"
		fv.assumeInv(st, v, u.Elem())
		return Val{T: v, Ty: t}
	case *types.Pointer:
		if au, ok := u.Elem().Underlying().(*types.Array); ok {
			i := fv.eval(st, e.Index)
			fv.oblige(st, "nil", text, "(not (= "+x.T+" 0))")
			fv.oblige(st, "bounds", text, fmt.Sprintf("(and (<= 0 %s) (< %s %d))", i.T, i.T, au.Len()))
			h := fv.eng.sc.ptrHeap(u.Elem())
			v := "(select (select " + fv.heapOf(st, h) + " " + x.T + ") " + i.T + ")"
			fv.assumeInv(st, v, au.Elem())
			return Val{T: v, Ty: t}
		}
	case *types.Basic:
		if isString(xt) {
			i := fv.eval(st, e.Index)
			fv.oblige(st, "bounds", text, "(and (<= 0 "+i.T+") (< "+i.T+" (gs.len "+x.T+")))")
			v := "(gs.at " + x.T + " " + i.T + ")"
			fv.assumeGlobal("(and (<= 0 " + v + ") (< " + v + " 256))")
			return Val{T: v, Ty: t}
		}
	case *types.Map:
		k := fv.eval(st, e.Index)
		vals := fv.mapLookup(st, x, u, k)
		return vals[0]
	}
	fv.unsupported("index on " + xt.String())
	return fv.havocVal(st, "unk", t)
}

func (fv *FuncVerifier) mapLookup(st *State, m Val, mt *types.Map, k Val) []Val {
	hv, hh := fv.eng.sc.mapHeaps(mt)
	has := "(select (select " + fv.heapOf(st, hh) + " " + m.T + ") " + k.T + ")"
	val := "(select (select " + fv.heapOf(st, hv) + " " + m.T + ") " + k.T + ")"
	has = and("(not (= "+m.T+" 0))", has)
	v := ite(has, val, fv.eng.sc.zero(mt.Elem()))
	fv.assumeInv(st, val, mt.Elem())
	return []Val{{T: v, Ty: mt.Elem()}, {T: has, Ty: types.Typ[types.Bool]}}
}

func (fv *FuncVerifier) evalSlice(st *State, e *ast.SliceExpr, t types.Type) Val {
	xt := fv.typeOf(e.X)
	text := fv.exprText(e)
	var base Val
	isStr := false
	switch u := xt.Underlying().(type) {
	case *types.Slice:
		base = fv.eval(st, e.X)
	case *types.Basic:
		if !isString(xt) {
			fv.unsupported("slice of " + xt.String())
			return fv.havocVal(st, "unk", t)
		}
		base = fv.eval(st, e.X)
		isStr = true
	case *types.Array:
		// slicing an addressable array: boxed local variable, or copy (noted)
		base = fv.arrayAsSlice(st, e.X, u, xt)
	case *types.Pointer:
		au, ok := u.Elem().Underlying().(*types.Array)
		if !ok {
			fv.unsupported("slice of pointer")
			return fv.havocVal(st, "unk", t)
		}
		p := fv.eval(st, e.X)
		fv.oblige(st, "nil", text, "(not (= "+p.T+" 0))")
		base = fv.ptrArrayAsSlice(st, p.T, au)
	default:
		fv.unsupported("slice of " + xt.String())
		return fv.havocVal(st, "unk", t)
	}
	if isStr {
		lo, hi := "0", "(gs.len "+base.T+")"
		if e.Low != nil {
			lo = fv.eval(st, e.Low).T
		}
		if e.High != nil {
			hi = fv.eval(st, e.High).T
		}
		fv.oblige(st, "bounds", text, "(and (<= 0 "+lo+") (<= "+lo+" "+hi+") (<= "+hi+" (gs.len "+base.T+")))")
		fv.eng.needSubstr = true
		return Val{T: "(gs.sub " + base.T + " " + lo + " " + hi + ")", Ty: t}
	}
	lo, hi, mx := "0", sLen(base.T), sCap(base.T)
	if e.Low != nil {
		lo = fv.eval(st, e.Low).T
	}
	if e.High != nil {
		hi = fv.eval(st, e.High).T
	}
	if e.Max != nil {
		mx = fv.eval(st, e.Max).T
		fv.oblige(st, "bounds", text, "(and (<= 0 "+lo+") (<= "+lo+" "+hi+") (<= "+hi+" "+mx+") (<= "+mx+" "+sCap(base.T)+"))")
	} else {
		fv.oblige(st, "bounds", text, "(and (<= 0 "+lo+") (<= "+lo+" "+hi+") (<= "+hi+" "+sCap(base.T)+"))")
	}
	return Val{T: mkSlice(sRef(base.T), plus(sOff(base.T), lo), minus(hi, lo), minus(mx, lo)), Ty: t}
}

// arrayAsSlice views an array-typed expression as a slice over its storage.
func (fv *FuncVerifier) arrayAsSlice(st *State, x ast.Expr, au *types.Array, xt types.Type) Val {
	n := strconv.FormatInt(au.Len(), 10)
	st2 := types.NewSlice(au.Elem())
	if id, ok := x.(*ast.Ident); ok {
		if o, ok := fv.info().ObjectOf(id).(*types.Var); ok && fv.boxed[o] {
			// boxed array variable: its storage is row st.vars[o] of the slice heap
			fv.eng.sc.sliceHeap(au.Elem())
			return Val{T: mkSlice(st.vars[o], "0", n, n), Ty: st2}
		}
	}
	// copy-in / copy-out: the slice is a view of a fresh backing row holding the array's value; when the array
	// is an assignable location (a field reached through a pointer, an element, a local) the row is written back
	// at the end of the enclosing statement, so writes made through the slice by that statement (copy, a callee
	// with a modifies clause) are visible. A slice that outlives the statement is a copy: noted.
	v := fv.eval(st, x)
	h := fv.eng.sc.sliceHeap(au.Elem())
	r := fv.allocRef(st)
	st.heaps[h] = "(store " + fv.heapOf(st, h) + " " + r + " " + v.T + ")"
	if fv.assignableArray(x) {
		fv.pendingWB = append(fv.pendingWB, arrayWB{x: x, heap: h, ref: r, ty: xt})
		fv.note("slicing an array field views a copy that is written back after the statement (later writes through an escaped slice are not modelled): " + fv.exprText(x))
	} else {
		fv.note("slicing a non-local array copies it into a fresh backing store (writes through such a slice are not modelled): " + fv.exprText(x))
	}
	return Val{T: mkSlice(r, "0", n, n), Ty: st2}
}

// chanOp: a (possibly blocking) channel operation. With "flag nolockchan <lock>" the operation must not run while
// that lock is held -- its counterpart runs under the lock and would wait for ever. Channel contents are not modelled.
func (fv *FuncVerifier) chanOp(st *State, text string) {
	// ghost counters of blocking channel operations completed (when a sidecar declares them): chanrecvs, chansends
	g := "chansends"
	if strings.HasPrefix(text, "<-") {
		g = "chanrecvs"
	}
	if v, ok := st.ghost[g]; ok {
		st.ghost[g] = Val{T: "(+ " + v.T + " 1)", Sort: "Int"}
	}
	lp := ""
	if fv.contract != nil {
		lp = fv.contract.Flags["nolockchan"]
	}
	if lp == "" {
		if fv.contract != nil && fv.contract.Flags["chanops"] != "" {
			// "flag chanops abstract": channel operations are accepted as effect-free blocking points
			fv.note("channel operations are blocking points without effect on modelled memory (values received are arbitrary)")
			return
		}
		fv.unsupported("channel operation " + text)
		return
	}
	fv.note("channel operations are blocking points without effect on modelled memory (values received are arbitrary)")
	fv.oblige(st, "lock", "channel operation "+text+" while "+lp+" is held", "(= "+fv.lockTerm(st, lp)+" 0)")
}

type arrayWB struct {
	x    ast.Expr
	heap string
	ref  string
	ty   types.Type
}

// assignableArray: x.f (f an array field, x a pointer or an assignable struct) or a plain local variable.
func (fv *FuncVerifier) assignableArray(x ast.Expr) bool {
	switch e := unparen(x).(type) {
	case *ast.Ident:
		o, ok := fv.info().ObjectOf(e).(*types.Var)
		return ok && !(o.Pkg() != nil && o.Parent() == o.Pkg().Scope())
	case *ast.SelectorExpr:
		sel, ok := fv.info().Selections[e]
		if !ok || sel.Kind() != types.FieldVal {
			return false
		}
		bt := fv.typeOf(e.X)
		if bt == nil {
			return false
		}
		if _, isPtr := bt.Underlying().(*types.Pointer); isPtr {
			return true
		}
		return fv.assignableArray(e.X)
	}
	return false
}

// flushWriteBacks copies the backing rows of array views taken by the statement back into the arrays.
func (fv *FuncVerifier) flushWriteBacks(st *State) {
	if len(fv.pendingWB) == 0 {
		return
	}
	wbs := fv.pendingWB
	fv.pendingWB = nil
	if st.dead {
		return
	}
	for _, w := range wbs {
		v := "(select " + fv.heapOf(st, w.heap) + " " + w.ref + ")"
		fv.assign(st, w.x, Val{T: v, Ty: w.ty})
	}
	fv.pendingWB = nil
}

func (fv *FuncVerifier) ptrArrayAsSlice(st *State, p string, au *types.Array) Val {
	fv.note("slicing through a pointer-to-array copies the array (writes through the slice not modelled)")
	n := strconv.FormatInt(au.Len(), 10)
	hp := fv.eng.sc.ptrHeap(au)
	arr := "(select " + fv.heapOf(st, hp) + " " + p + ")"
	h := fv.eng.sc.sliceHeap(au.Elem())
	r := fv.allocRef(st)
	st.heaps[h] = "(store " + fv.heapOf(st, h) + " " + r + " " + arr + ")"
	return Val{T: mkSlice(r, "0", n, n), Ty: types.NewSlice(au.Elem())}
}

// field selection path (handles embedded fields and implicit dereference)
func (fv *FuncVerifier) selectPath(st *State, x Val, path []int, text string) Val {
	cur := x
	for _, idx := range path {
		t := cur.Ty
		if p, ok := t.Underlying().(*types.Pointer); ok {
			fv.oblige(st, "nil", text, "(not (= "+cur.T+" 0))")
			h := fv.eng.sc.ptrHeap(p.Elem())
			cur = Val{T: "(select " + fv.heapOf(st, h) + " " + cur.T + ")", Ty: p.Elem()}
			t = p.Elem()
		}
		su, ok := t.Underlying().(*types.Struct)
		if !ok {
			fv.unsupported("field of non-struct " + t.String())
			return fv.havocVal(st, "unk", nil)
		}
		f := su.Field(idx)
		n := fv.eng.sc.sortOf(t)
		cur = Val{T: "(" + fv.eng.sc.fieldSel(n, f) + " " + cur.T + ")", Ty: f.Type()}
	}
	return cur
}

func (fv *FuncVerifier) evalSelector(st *State, e *ast.SelectorExpr, t types.Type) Val {
	// qualified identifier pkg.Name
	if id, ok := e.X.(*ast.Ident); ok {
		if _, isPkg := fv.info().ObjectOf(id).(*types.PkgName); isPkg {
			return fv.evalIdent(st, e.Sel)
		}
	}
	sel, ok := fv.info().Selections[e]
	if !ok {
		fv.unsupported("selector " + fv.exprText(e))
		return fv.havocVal(st, "unk", t)
	}
	switch sel.Kind() {
	case types.FieldVal:
		if tgt := fv.aliasTarget(e.X); tgt != nil {
			// x.f where x names the location &root.path: read root.path then select f
			x := fv.eval(st, tgt)
			v := fv.selectPath(st, x, sel.Index(), fv.exprText(e))
			fv.assumeInv(st, v.T, v.Ty)
			return v
		}
		x := fv.eval(st, e.X)
		v := fv.selectPath(st, x, sel.Index(), fv.exprText(e))
		fv.assumeInv(st, v.T, v.Ty)
		return v
	case types.MethodVal:
		// method value (not called): opaque
		fv.unsupported("method value " + fv.exprText(e))
		return fv.havocVal(st, "mval", t)
	}
	fv.unsupported("selector kind")
	return fv.havocVal(st, "unk", t)
}

// evalAddr evaluates &x.
func (fv *FuncVerifier) evalAddr(st *State, x ast.Expr, t types.Type) Val {
	switch x := x.(type) {
	case *ast.ParenExpr:
		return fv.evalAddr(st, x.X, t)
	case *ast.CompositeLit:
		v := fv.evalComposite(st, x, fv.typeOf(x))
		r := fv.allocRef(st)
		h := fv.eng.sc.ptrHeap(v.Ty)
		st.heaps[h] = "(store " + fv.heapOf(st, h) + " " + r + " " + v.T + ")"
		fv.eng.needDyn = true
		fv.assume(st, "(= (dyn.type "+r+") "+fv.dynTag(t)+")")
		return Val{T: r, Ty: t}
	case *ast.Ident:
		if o, ok := fv.info().ObjectOf(x).(*types.Var); ok {
			if fv.boxed[o] {
				if _, has := st.vars[o]; !has {
					fv.readVar(st, o)
				}
				return Val{T: st.vars[o], Ty: t}
			}
			if o.Pkg() != nil && o.Parent() == o.Pkg().Scope() {
				// address of a global: stable non-nil reference
				name := "gaddr_" + sanitize(o.Pkg().Name()+"_"+o.Name())
				fv.eng.globalAddr(name)
				return Val{T: name, Ty: t}
			}
		}
	case *ast.SelectorExpr:
		// &p.f : interior pointer, modelled as a stable abstract address (addr.field base k); the pointee is
		// NOT connected to the field's value (sound for opaque objects reached only through such pointers)
		if sel, ok := fv.info().Selections[x]; ok && sel.Kind() == types.FieldVal && len(sel.Index()) == 1 {
			if bt := fv.typeOf(x.X); bt != nil {
				if _, isStruct := bt.Underlying().(*types.Struct); isStruct {
					if inner, ok := unparen(x.X).(*ast.SelectorExpr); ok {
						base := fv.evalAddr(st, inner, types.NewPointer(bt))
						fv.eng.needFieldAddr()
						return Val{T: fmt.Sprintf("(addr.field %s %d)", base.T, sel.Index()[0]), Ty: t}
					}
				}
				if _, isPtr := bt.Underlying().(*types.Pointer); isPtr {
					base := fv.eval(st, x.X)
					fv.eng.needFieldAddr()
					fv.note("interior pointer &" + fv.exprText(x) + " is an abstract address (pointee not linked to the field value)")
					return Val{T: fmt.Sprintf("(addr.field %s %d)", base.T, sel.Index()[0]), Ty: t}
				}
			}
		}
	case *ast.IndexExpr:
	}
	fv.unsupported("address-of " + fv.exprText(x))
	v := fv.havocVal(st, "addr", t)
	fv.assume(st, "(not (= "+v.T+" 0))")
	return v
}

func (fv *FuncVerifier) evalComposite(st *State, e *ast.CompositeLit, t types.Type) Val {
	if t == nil {
		fv.unsupported("composite literal without type")
		return fv.havocVal(st, "unk", t)
	}
	switch u := t.Underlying().(type) {
	case *types.Struct:
		n := fv.eng.sc.sortOf(t)
		fields := make([]string, u.NumFields())
		for i := range fields {
			fields[i] = fv.eng.sc.zero(u.Field(i).Type())
		}
		for i, el := range e.Elts {
			if kv, ok := el.(*ast.KeyValueExpr); ok {
				name := kv.Key.(*ast.Ident).Name
				for j := 0; j < u.NumFields(); j++ {
					if u.Field(j).Name() == name {
						fields[j] = fv.evalElt(st, kv.Value, u.Field(j).Type()).T
					}
				}
			} else {
				fields[i] = fv.evalElt(st, el, u.Field(i).Type()).T
			}
		}
		if u.NumFields() == 0 {
			return Val{T: "(mk_" + n + " 0)", Ty: t}
		}
		return Val{T: "(mk_" + n + " " + strings.Join(fields, " ") + ")", Ty: t}
	case *types.Array:
		arr := fv.eng.sc.zero(t)
		idx := 0
		for _, el := range e.Elts {
			v := el
			if kv, ok := el.(*ast.KeyValueExpr); ok {
				if tv, ok := fv.info().Types[kv.Key]; ok && tv.Value != nil {
					i64, _ := constant.Int64Val(tv.Value)
					idx = int(i64)
				}
				v = kv.Value
			}
			ev := fv.evalElt(st, v, u.Elem())
			arr = fmt.Sprintf("(store %s %d %s)", arr, idx, ev.T)
			idx++
		}
		return Val{T: arr, Ty: t}
	case *types.Slice:
		row := fv.eng.sc.constArray("(Array Int "+fv.eng.sc.sortOf(u.Elem())+")", fv.eng.sc.zero(u.Elem()))
		idx, n := 0, 0
		for _, el := range e.Elts {
			v := el
			if kv, ok := el.(*ast.KeyValueExpr); ok {
				if tv, ok := fv.info().Types[kv.Key]; ok && tv.Value != nil {
					i64, _ := constant.Int64Val(tv.Value)
					idx = int(i64)
				}
				v = kv.Value
			}
			ev := fv.evalElt(st, v, u.Elem())
			row = fmt.Sprintf("(store %s %d %s)", row, idx, ev.T)
			idx++
			if idx > n {
				n = idx
			}
		}
		r := fv.allocRef(st)
		h := fv.eng.sc.sliceHeap(u.Elem())
		st.heaps[h] = "(store " + fv.heapOf(st, h) + " " + r + " " + row + ")"
		ns := strconv.Itoa(n)
		return Val{T: mkSlice(r, "0", ns, ns), Ty: t}
	case *types.Map:
		r := fv.allocRef(st)
		hv, hh := fv.eng.sc.mapHeaps(u)
		hasArr := "((as const (Array " + fv.eng.sc.sortOf(u.Key()) + " Bool)) false)"
		valArr := "(select " + fv.heapOf(st, hv) + " " + r + ")"
		for _, el := range e.Elts {
			kv := el.(*ast.KeyValueExpr)
			k := fv.evalElt(st, kv.Key, u.Key())
			v := fv.evalElt(st, kv.Value, u.Elem())
			hasArr = "(store " + hasArr + " " + k.T + " true)"
			valArr = "(store " + valArr + " " + k.T + " " + v.T + ")"
		}
		st.heaps[hh] = "(store " + fv.heapOf(st, hh) + " " + r + " " + hasArr + ")"
		st.heaps[hv] = "(store " + fv.heapOf(st, hv) + " " + r + " " + valArr + ")"
		return Val{T: r, Ty: t}
	}
	fv.unsupported("composite literal of " + t.String())
	return fv.havocVal(st, "unk", t)
}

// evalElt evaluates a composite element, which may itself be an untyped composite literal.
func (fv *FuncVerifier) evalElt(st *State, e ast.Expr, t types.Type) Val {
	if cl, ok := e.(*ast.CompositeLit); ok && cl.Type == nil {
		if p, ok := t.Underlying().(*types.Pointer); ok {
			v := fv.evalComposite(st, cl, p.Elem())
			r := fv.allocRef(st)
			h := fv.eng.sc.ptrHeap(p.Elem())
			st.heaps[h] = "(store " + fv.heapOf(st, h) + " " + r + " " + v.T + ")"
			return Val{T: r, Ty: t}
		}
		return fv.evalComposite(st, cl, t)
	}
	v := fv.eval(st, e)
	return fv.convertAssign(st, v, t)
}

// convertAssign handles implicit conversions on assignment (concrete -> interface).
func (fv *FuncVerifier) convertAssign(st *State, v Val, target types.Type) Val {
	if target == nil || v.Ty == nil {
		return v
	}
	if b, ok := v.Ty.(*types.Basic); ok && b.Kind() == types.UntypedNil {
		return Val{T: fv.eng.sc.zero(target), Ty: target}
	}
	if _, toIface := target.Underlying().(*types.Interface); toIface {
		if _, fromIface := v.Ty.Underlying().(*types.Interface); !fromIface {
			if b, ok := v.Ty.(*types.Basic); ok && b.Kind() == types.UntypedNil {
				return Val{T: "0", Ty: target}
			}
			return fv.boxIface(st, v, target)
		}
	}
	return Val{T: v.T, Ty: target}
}

func (fv *FuncVerifier) boxIface(st *State, v Val, target types.Type) Val {
	fv.eng.needDyn = true
	tag := fv.dynTag(v.Ty)
	switch v.Ty.Underlying().(type) {
	case *types.Pointer, *types.Map, *types.Chan, *types.Signature:
		// the interface holds the pointer itself; a nil pointer in an interface is a non-nil interface,
		// which we do not distinguish: noted
		fv.assume(st, implies("(not (= "+v.T+" 0))", "(= (dyn.type "+v.T+") "+tag+")"))
		return Val{T: v.T, Ty: target}
	}
	r := fv.fresh("iface", "Int")
	fn := "dyn.val_" + typeKey(v.Ty)
	fv.eng.dynVals[fn] = fv.eng.sc.sortOf(v.Ty)
	fv.assume(st, "(and (> "+r+" 0) (= (dyn.type "+r+") "+tag+") (= ("+fn+" "+r+") "+v.T+"))")
	return Val{T: r, Ty: target}
}

// aliasTarget returns the location expression an identifier is an alias of (see scanAliases).
func (fv *FuncVerifier) aliasTarget(e ast.Expr) ast.Expr {
	id, ok := unparen(e).(*ast.Ident)
	if !ok || fv.aliases == nil {
		return nil
	}
	o := fv.info().ObjectOf(id)
	if o == nil {
		return nil
	}
	return fv.aliases[o]
}

// globalInit: an immutable package-level variable of value type (struct / array / basic) equals its
// initialiser when that is a heap-free expression (constants, composite literals of such).
func (fv *FuncVerifier) globalInit(st *State, name string, o *types.Var) {
	if fv.globalsDone == nil {
		fv.globalsDone = map[string]bool{}
	}
	if fv.globalsDone[name] {
		return
	}
	fv.globalsDone[name] = true
	switch o.Type().Underlying().(type) {
	case *types.Struct, *types.Array, *types.Basic:
	default:
		return
	}
	var pk *pkgT
	if p, ok := fv.eng.pkgs[o.Pkg().Path()]; ok {
		pk = p
	} else if p, ok := fv.eng.depPkgs[o.Pkg().Path()]; ok {
		pk = p
	}
	if pk == nil || pk != fv.pkg {
		return // initialiser expressions are only evaluated in the package under verification
	}
	for _, f := range pk.Syntax {
		for _, d := range f.Decls {
			gd, ok := d.(*ast.GenDecl)
			if !ok || gd.Tok != token.VAR {
				continue
			}
			for _, sp := range gd.Specs {
				vs := sp.(*ast.ValueSpec)
				for i, nm := range vs.Names {
					if pk.TypesInfo.Defs[nm] != o {
						continue
					}
					if i >= len(vs.Values) {
						if len(vs.Values) == 0 {
							fv.assumeGlobal("(= " + name + " " + fv.eng.sc.zero(o.Type()) + ")")
						}
						return
					}
					if !heapFreeInit(vs.Values[i]) {
						return
					}
					scratch := st.clone()
					fv.quiet++
					v := fv.evalElt(scratch, vs.Values[i], o.Type())
					fv.quiet--
					fv.assumeGlobal("(= " + name + " " + v.T + ")")
					return
				}
			}
		}
	}
}

func heapFreeInit(e ast.Expr) bool {
	ok := true
	ast.Inspect(e, func(n ast.Node) bool {
		switch x := n.(type) {
		case *ast.CallExpr, *ast.FuncLit, *ast.UnaryExpr:
			if u, isU := x.(*ast.UnaryExpr); isU && u.Op != token.AND {
				return true
			}
			ok = false
		case *ast.CompositeLit:
			if _, isArr := x.Type.(*ast.ArrayType); isArr {
				if at := x.Type.(*ast.ArrayType); at.Len == nil {
					ok = false // slice literal
				}
			}
			if _, isMap := x.Type.(*ast.MapType); isMap {
				ok = false
			}
		}
		return ok
	})
	return ok
}
