package main

// Calls: builtins, conversions, closures, library models, contracted callees, havoc.

import (
	"go/token"
	"fmt"
	"go/ast"
	"go/types"
	"strconv"
	"strings"
)

func (fv *FuncVerifier) calleeFunc(e *ast.CallExpr) *types.Func {
	switch f := e.Fun.(type) {
	case *ast.Ident:
		if o, ok := fv.info().ObjectOf(f).(*types.Func); ok {
			return o
		}
	case *ast.SelectorExpr:
		if o, ok := fv.info().ObjectOf(f.Sel).(*types.Func); ok {
			return o
		}
	case *ast.ParenExpr:
		return fv.calleeFunc(&ast.CallExpr{Fun: f.X, Args: e.Args})
	}
	return nil
}

func resultTypes(sig *types.Signature) []types.Type {
	var out []types.Type
	for i := 0; i < sig.Results().Len(); i++ {
		out = append(out, sig.Results().At(i).Type())
	}
	return out
}

// evalCall evaluates a call and returns its result values.
func (fv *FuncVerifier) evalCall(st *State, e *ast.CallExpr) []Val {
	if e.Pos().IsValid() {
		fv.curPos = e.Pos()
	}
	// interior-pointer aliases passed to a callee (as receiver or argument): the callee may rewrite the
	// location they name, so that part of the enclosing object is arbitrary afterwards
	{
		var escaped []ast.Expr
		if sel, ok := unparen(e.Fun).(*ast.SelectorExpr); ok {
			if tgt := fv.aliasTarget(sel.X); len(fv.aliases) > 0 && tgt != nil {
				escaped = append(escaped, tgt)
			} else if tgt := fv.implicitFieldAddr(sel); tgt != nil {
				// p.f.M() with a pointer receiver: M works on &p.f; same copy-in / copy-out treatment
				escaped = append(escaped, tgt)
			}
		}
		if len(fv.aliases) > 0 {
			for _, a := range e.Args {
				if tgt := fv.aliasTarget(a); tgt != nil {
					escaped = append(escaped, tgt)
				}
			}
		}
		// &p.f passed as an argument to a callee under contract: the callee works on the field through that
		// pointer (copy-in / copy-out at the field's abstract address)
		if fn := fv.calleeFunc(e); fn != nil && fn.Pkg() != nil && fv.eng.contracts.ByKey[fn.Pkg().Path()+"."+funcKey(fn)] != nil {
			for _, a := range e.Args {
				if u, ok := unparen(a).(*ast.UnaryExpr); ok && u.Op == token.AND {
					if fx, ok := unparen(u.X).(*ast.SelectorExpr); ok {
						if fs, ok := fv.info().Selections[fx]; ok && fs.Kind() == types.FieldVal && len(fs.Index()) == 1 {
							if bt := fv.typeOf(fx.X); bt != nil {
								if _, isPtr := bt.Underlying().(*types.Pointer); isPtr {
									escaped = append(escaped, fx)
								}
							}
						}
					}
				}
			}
		}
		if len(escaped) > 0 {
			// copy-in / copy-out: the callee works on the pointee cell at the alias's abstract address
			type esc struct {
				tgt  ast.Expr
				addr string
				heap string
				ty   types.Type
			}
			var es []esc
			for _, tgt := range escaped {
				t := fv.typeOf(tgt)
				if t == nil {
					continue
				}
				addr := fv.evalAddr(st, tgt, types.NewPointer(t))
				h := fv.eng.sc.ptrHeap(t)
				cur := fv.eval(st, tgt)
				st.heaps[h] = "(store " + fv.heapOf(st, h) + " " + addr.T + " " + cur.T + ")"
				es = append(es, esc{tgt, addr.T, h, t})
			}
			defer func() {
				if st.dead {
					return
				}
				for _, x := range es {
					v := "(select " + fv.heapOf(st, x.heap) + " " + x.addr + ")"
					fv.assumeInv(st, v, x.ty)
					fv.assign(st, x.tgt, Val{T: v, Ty: x.ty})
				}
			}()
		}
	}
	// call-site key for "after <callee>#k assert ..." directives
	if len(fv.contract.Asserts) > 0 || len(fv.contract.Befores) > 0 || len(fv.contract.BeforeLets) > 0 || len(fv.contract.AfterLets) > 0 {
		name := ""
		switch f := unparen(e.Fun).(type) {
		case *ast.Ident:
			name = f.Name
		case *ast.SelectorExpr:
			name = f.Sel.Name
			if fn := fv.calleeFunc(e); fn != nil {
				name = funcKey(fn)
			}
		}
		if name != "" {
			if fv.siteOcc == nil {
				fv.siteOcc = map[string]int{}
			}
			k := fv.siteOcc[name]
			fv.siteOcc[name] = k + 1
			key := fmt.Sprintf("%s#%d", name, k)
			if cls, ok := fv.contract.BeforeLets[key]; ok {
				fv.bindLets(st, cls, e.Pos())
			}
			if cls, ok := fv.contract.Befores[key]; ok {
				var errs []string
				for i, cl := range cls {
					g := fv.ownEnvAt(st, &errs, e.Pos()).eval(cl.Expr)
					fv.oblige(st, "assert", fmt.Sprintf("before %s [%s] %s", key, clauseName(cl, i), cl.Text), g.T)
					if !cl.NoAssume {
						fv.assume(st, g.T)
					} else if n := len(fv.obls); n > 0 && fv.obls[n-1].Kind == "assert" {
						fv.obls[n-1].NoRetry = true
					}
				}
				if len(errs) > 0 {
					fv.unsupported("spec errors in before-assert: " + strings.Join(errs, "; "))
				}
			}
			_, hasA := fv.contract.Asserts[key]
			_, hasL := fv.contract.AfterLets[key]
			if hasA || hasL {
				defer func() { fv.pendingAsserts = append(fv.pendingAsserts, key) }()
			}
		}
	}
	// conversion?
	if tv, ok := fv.info().Types[e.Fun]; ok && tv.IsType() {
		return []Val{fv.evalConversion(st, e, tv.Type)}
	}
	// builtin?
	if id, ok := unparen(e.Fun).(*ast.Ident); ok {
		if _, isB := fv.info().ObjectOf(id).(*types.Builtin); isB {
			return fv.evalBuiltin(st, id.Name, e)
		}
		// local closure
		if o, ok := fv.info().ObjectOf(id).(*types.Var); ok {
			if lit, ok := fv.closures[o]; ok {
				return fv.inlineClosure(st, lit, e.Args, fv.exprText(e.Fun))
			}
		}
	}
	if lit, ok := unparen(e.Fun).(*ast.FuncLit); ok {
		return fv.inlineClosure(st, lit, e.Args, "funclit")
	}
	fn := fv.calleeFunc(e)
	if fn == nil {
		// call through a function value
		return fv.callUnknown(st, e, nil, "call through function value "+fv.exprText(e.Fun))
	}
	full := fn.FullName()
	if strings.HasPrefix(full, "(*sync.Mutex).") || strings.HasPrefix(full, "(*sync.RWMutex).") {
		return fv.lockModel(st, full, e)
	}
	// receiver
	var recv *Val
	if sel, ok := unparen(e.Fun).(*ast.SelectorExpr); ok {
		if s, ok := fv.info().Selections[sel]; ok && s.Kind() == types.MethodVal {
			r := fv.eval(st, sel.X)
			// implicit address / deref to match receiver type
			r = fv.adjustRecv(st, r, s, sel)
			recv = &r
		}
	}
	if vs, ok := fv.libModel(st, full, fn, recv, e); ok {
		return vs
	}
	if c := fv.eng.contractFor(fn); c != nil {
		return fv.callContract(st, e, fn, c, recv)
	}
	return fv.callUnknown(st, e, recv, full)
}

func unparen(e ast.Expr) ast.Expr {
	for {
		p, ok := e.(*ast.ParenExpr)
		if !ok {
			return e
		}
		e = p.X
	}
}

// implicitFieldAddr: for a method call x.M() whose method has a pointer receiver while x is an addressable
// field  p.f  reached through a pointer p, returns the field expression (the receiver is &p.f).
func (fv *FuncVerifier) implicitFieldAddr(sel *ast.SelectorExpr) ast.Expr {
	s, ok := fv.info().Selections[sel]
	if !ok || s.Kind() != types.MethodVal || len(s.Index()) != 1 {
		return nil
	}
	fn, ok := s.Obj().(*types.Func)
	if !ok {
		return nil
	}
	sig := fn.Type().(*types.Signature)
	if sig.Recv() == nil {
		return nil
	}
	if _, wantPtr := sig.Recv().Type().Underlying().(*types.Pointer); !wantPtr {
		return nil
	}
	rt := fv.typeOf(sel.X)
	if rt == nil {
		return nil
	}
	if _, havePtr := rt.Underlying().(*types.Pointer); havePtr {
		return nil
	}
	if _, isIface := rt.Underlying().(*types.Interface); isIface {
		return nil
	}
	fx, ok := unparen(sel.X).(*ast.SelectorExpr)
	if !ok {
		return nil
	}
	fs, ok := fv.info().Selections[fx]
	if !ok || fs.Kind() != types.FieldVal || len(fs.Index()) != 1 {
		return nil
	}
	bt := fv.typeOf(fx.X)
	if bt == nil {
		return nil
	}
	if _, isPtr := bt.Underlying().(*types.Pointer); !isPtr {
		return nil
	}
	// only for callees under contract (others are abstracted anyway)
	if fv.eng.contracts.ByKey[fn.Pkg().Path()+"."+funcKey(fn)] == nil {
		return nil
	}
	return fx
}

func (fv *FuncVerifier) adjustRecv(st *State, r Val, s *types.Selection, sel *ast.SelectorExpr) Val {
	// walk embedded path except last (method) index
	idx := s.Index()
	if len(idx) > 1 {
		r = fv.selectPath(st, r, idx[:len(idx)-1], fv.exprText(sel))
	}
	fn := s.Obj().(*types.Func)
	sig := fn.Type().(*types.Signature)
	if sig.Recv() == nil {
		return r
	}
	rt := sig.Recv().Type()
	_, wantPtr := rt.Underlying().(*types.Pointer)
	_, havePtr := r.Ty.Underlying().(*types.Pointer)
	if _, isIface := r.Ty.Underlying().(*types.Interface); isIface {
		return r
	}
	if wantPtr && !havePtr {
		// (&x).M() : x addressable
		return fv.evalAddr(st, sel.X, rt)
	}
	if !wantPtr && havePtr {
		p := r.Ty.Underlying().(*types.Pointer)
		fv.oblige(st, "nil", fv.exprText(sel), "(not (= "+r.T+" 0))")
		h := fv.eng.sc.ptrHeap(p.Elem())
		return Val{T: "(select " + fv.heapOf(st, h) + " " + r.T + ")", Ty: p.Elem()}
	}
	return r
}

func (fv *FuncVerifier) evalConversion(st *State, e *ast.CallExpr, to types.Type) Val {
	if len(e.Args) != 1 {
		return fv.havocVal(st, "conv", to)
	}
	x := fv.eval(st, e.Args[0])
	from := x.Ty
	if from == nil {
		return Val{T: x.T, Ty: to}
	}
	sc := fv.eng.sc
	switch {
	case isInteger(to) && isInteger(from):
		fw, fs := intWidth(from)
		tw, ts := intWidth(to)
		if fw != 0 && (fw < tw && (!fs || ts) || fw == tw && fs == ts) {
			return Val{T: x.T, Ty: to}
		}
		if fw == 0 {
			return Val{T: x.T, Ty: to}
		}
		if tw == 64 && ts {
			// uint64 -> int64 wrap
			if !fs && fw == 64 {
				return Val{T: "(ite (< " + x.T + " " + pow2(63) + ") " + x.T + " (- " + x.T + " " + pow2(64) + "))", Ty: to}
			}
			return Val{T: x.T, Ty: to}
		}
		return Val{T: fv.wrap(x.T, to), Ty: to}
	case isInteger(to) && isFloat(from):
		return Val{T: "(to_int " + x.T + ")", Ty: to}
	case isFloat(to) && isInteger(from):
		return Val{T: "(to_real " + x.T + ")", Ty: to}
	case isFloat(to) && isFloat(from):
		return Val{T: x.T, Ty: to}
	case isString(to) && isString(from):
		return Val{T: x.T, Ty: to}
	case isString(to):
		if sl, ok := from.Underlying().(*types.Slice); ok && isInteger(sl.Elem()) {
			// string(bytes): a function of the content
			return Val{T: fv.strOfBytes(st, x.T, sl.Elem()), Ty: to}
		}
		if isInteger(from) {
			return fv.havocVal(st, "runestr", to)
		}
	case isString(from):
		if sl, ok := to.Underlying().(*types.Slice); ok && isInteger(sl.Elem()) {
			if w, _ := intWidth(sl.Elem()); w == 8 {
				h := sc.sliceHeap(sl.Elem())
				r := fv.allocRef(st)
				row := fv.fresh("row", "(Array Int Int)")
				q := fv.qname()
				cp := fv.fresh("cap", "Int")
				fv.assume(st, "(and (>= "+cp+" (gs.len "+x.T+")) (< "+cp+" 4611686018427387904) (forall (("+q+" Int)) (=> (and (<= 0 "+q+") (< "+q+" (gs.len "+x.T+"))) (= (select "+row+" "+q+") (gs.at "+x.T+" "+q+")))))")
				st.heaps[h] = "(store " + fv.heapOf(st, h) + " " + r + " " + row + ")"
				return Val{T: mkSlice(r, "0", "(gs.len "+x.T+")", cp), Ty: to}
			}
		}
	}
	// same underlying representation
	if sc.sortOf(to) == sc.sortOf(from) {
		if _, toI := to.Underlying().(*types.Interface); toI {
			return fv.convertAssign(st, x, to)
		}
		return Val{T: x.T, Ty: to}
	}
	if _, toI := to.Underlying().(*types.Interface); toI {
		return fv.convertAssign(st, x, to)
	}
	fv.unsupported("conversion " + from.String() + " -> " + to.String())
	return fv.havocVal(st, "conv", to)
}

// strOfBytes models string(b) for a byte slice term: a string value whose length and content are those of b.
func (fv *FuncVerifier) strOfBytes(st *State, xT string, elem types.Type) string {
	fv.eng.needStrOfBytes = true
	h := fv.eng.sc.sliceHeap(elem)
	// a function of the row, offset and length: converting the same bytes twice gives the same string
	s := "(gs.ofbytes (select " + fv.heapOf(st, h) + " " + sRef(xT) + ") " + sOff(xT) + " " + sLen(xT) + ")"
	if len(s) > 160 {
		n := fv.fresh("str", "Str")
		fv.assume(st, "(= "+n+" "+s+")")
		s = n
	}
	q := fv.qname()
	fv.assume(st, "(and (= (gs.len "+s+") "+sLen(xT)+") (forall (("+q+" Int)) (=> (and (<= 0 "+q+") (< "+q+" "+sLen(xT)+")) (= (gs.at "+s+" "+q+") (select (select "+fv.heapOf(st, h)+" "+sRef(xT)+") (+ "+sOff(xT)+" "+q+"))))))")
	return s
}

func (fv *FuncVerifier) qname() string {
	fv.nfresh++
	return fmt.Sprintf("q%d", fv.nfresh)
}

func (fv *FuncVerifier) evalBuiltin(st *State, name string, e *ast.CallExpr) []Val {
	sc := fv.eng.sc
	t := fv.typeOf(e)
	text := fv.exprText(e)
	switch name {
	case "len", "cap":
		x := fv.eval(st, e.Args[0])
		switch u := x.Ty.Underlying().(type) {
		case *types.Slice:
			if name == "len" {
				return []Val{{T: sLen(x.T), Ty: t}}
			}
			return []Val{{T: sCap(x.T), Ty: t}}
		case *types.Array:
			return []Val{{T: strconv.FormatInt(u.Len(), 10), Ty: t}}
		case *types.Basic:
			return []Val{{T: "(gs.len " + x.T + ")", Ty: t}}
		case *types.Map:
			fv.eng.needMapLen = true
			_, hh := sc.mapHeaps(u)
			v := "(map.len_" + typeKey(u.Key()) + " (select " + fv.heapOf(st, hh) + " " + x.T + "))"
			fv.eng.mapLenKeys[typeKey(u.Key())] = sc.sortOf(u.Key())
			return []Val{{T: ite("(= "+x.T+" 0)", "0", v), Ty: t}}
		case *types.Pointer:
			if au, ok := u.Elem().Underlying().(*types.Array); ok {
				return []Val{{T: strconv.FormatInt(au.Len(), 10), Ty: t}}
			}
		}
		v := fv.havocVal(st, name, t)
		fv.assume(st, "(<= 0 "+v.T+")")
		return []Val{v}
	case "append":
		return []Val{fv.evalAppend(st, e, t)}
	case "copy":
		dst := fv.eval(st, e.Args[0])
		src := fv.eval(st, e.Args[1])
		return []Val{fv.copyModel(st, dst, src, t, text)}
	case "make":
		switch u := t.Underlying().(type) {
		case *types.Slice:
			ln := fv.eval(st, e.Args[1])
			cp := ln
			if len(e.Args) > 2 {
				cp = fv.eval(st, e.Args[2])
			}
			fv.oblige(st, "bounds", text, "(and (<= 0 "+ln.T+") (<= "+ln.T+" "+cp.T+"))")
			r := fv.allocRef(st)
			h := sc.sliceHeap(u.Elem())
			row := sc.constArray("(Array Int "+sc.sortOf(u.Elem())+")", sc.zero(u.Elem()))
			st.heaps[h] = "(store " + fv.heapOf(st, h) + " " + r + " " + row + ")"
			return []Val{{T: mkSlice(r, "0", ln.T, cp.T), Ty: t}}
		case *types.Map:
			for _, a := range e.Args[1:] {
				fv.eval(st, a)
			}
			r := fv.allocRef(st)
			_, hh := sc.mapHeaps(u)
			st.heaps[hh] = "(store " + fv.heapOf(st, hh) + " " + r + " ((as const (Array " + sc.sortOf(u.Key()) + " Bool)) false))"
			return []Val{{T: r, Ty: t}}
		case *types.Chan:
			v := fv.havocVal(st, "chan", t)
			fv.assume(st, "(> "+v.T+" 0)")
			return []Val{v}
		}
	case "new":
		p := t.Underlying().(*types.Pointer)
		r := fv.allocRef(st)
		h := sc.ptrHeap(p.Elem())
		st.heaps[h] = "(store " + fv.heapOf(st, h) + " " + r + " " + sc.zero(p.Elem()) + ")"
		return []Val{{T: r, Ty: t}}
	case "delete":
		m := fv.eval(st, e.Args[0])
		k := fv.eval(st, e.Args[1])
		mt := m.Ty.Underlying().(*types.Map)
		_, hh := sc.mapHeaps(mt)
		H := fv.heapOf(st, hh)
		st.heaps[hh] = "(store " + H + " " + m.T + " (store (select " + H + " " + m.T + ") " + k.T + " false))"
		return nil
	case "panic":
		for _, a := range e.Args {
			fv.eval(st, a)
		}
		fv.oblige(st, "unreachable-panic", text, "false")
		st.dead = true
		st.pc = "false"
		return nil
	case "min", "max":
		v := fv.eval(st, e.Args[0])
		for _, a := range e.Args[1:] {
			w := fv.eval(st, a)
			if name == "min" {
				v = Val{T: "(ite (<= " + v.T + " " + w.T + ") " + v.T + " " + w.T + ")", Ty: t}
			} else {
				v = Val{T: "(ite (>= " + v.T + " " + w.T + ") " + v.T + " " + w.T + ")", Ty: t}
			}
		}
		return []Val{v}
	case "close":
		for _, a := range e.Args {
			fv.eval(st, a)
		}
		fv.note("channel close dropped")
		return nil
	case "print", "println":
		for _, a := range e.Args {
			fv.eval(st, a)
		}
		return nil
	case "recover":
		return []Val{fv.havocVal(st, "recovered", t)}
	case "clear":
	}
	fv.unsupported("builtin " + name)
	if t != nil {
		return []Val{fv.havocVal(st, name, t)}
	}
	return nil
}

// frameWrite emits the frame obligation for a write to rows [lo,hi) of ref in heap h.
func (fv *FuncVerifier) frameWrite(st *State, h, ref, lo, hi, text string, cond string) {
	if fv.modsAny {
		return
	}
	goal := "(>= " + ref + " " + fv.alloc0 + ")"
	if lo != "" && hi != "" {
		goal = or(goal, "(>= "+lo+" "+hi+")") // empty region
	}
	for _, m := range fv.mods {
		if m.heap != h {
			continue
		}
		c := "(= " + ref + " " + m.ref + ")"
		if !m.whole && lo != "" {
			c = "(and " + c + " (<= " + m.lo + " " + lo + ") (<= " + hi + " " + m.hi + "))"
		}
		goal = or(goal, c)
	}
	if cond != "" {
		goal = implies(cond, goal)
	}
	fv.oblige(st, "frame", text, goal)
}

// writeElem stores v at slice position.
func (fv *FuncVerifier) writeElem(st *State, s Val, elem types.Type, idx string, v string, text string) {
	h := fv.eng.sc.sliceHeap(elem)
	H := fv.heapOf(st, h)
	pos := plus(sOff(s.T), idx)
	fv.frameWrite(st, h, sRef(s.T), pos, plus(pos, "1"), text, "")
	st.heaps[h] = "(store " + H + " " + sRef(s.T) + " (store (select " + H + " " + sRef(s.T) + ") " + pos + " " + v + "))"
}

func (fv *FuncVerifier) nameHeap(st *State, h string) {
	// introduce a name for a long heap term
	t := st.heaps[h]
	if len(t) < 200 {
		return
	}
	n := fv.fresh(h, fv.eng.sc.heaps[h])
	fv.assume(st, "(= "+n+" "+t+")")
	st.heaps[h] = n
}

func (fv *FuncVerifier) copyModel(st *State, dst, src Val, t types.Type, text string) Val {
	sc := fv.eng.sc
	du := dst.Ty.Underlying().(*types.Slice)
	h := sc.sliceHeap(du.Elem())
	H := fv.heapOf(st, h)
	var srcLen string
	var srcAt func(j string) string
	if isString(src.Ty) {
		srcLen = "(gs.len " + src.T + ")"
		srcAt = func(j string) string { return "(gs.at " + src.T + " " + j + ")" }
	} else {
		srcLen = sLen(src.T)
		srcAt = func(j string) string {
			return "(select (select " + H + " " + sRef(src.T) + ") (+ " + sOff(src.T) + " " + j + "))"
		}
	}
	n := fv.fresh("ncopy", "Int")
	fv.assume(st, "(= "+n+" (ite (<= "+sLen(dst.T)+" "+srcLen+") "+sLen(dst.T)+" "+srcLen+"))")
	row := fv.fresh("row", "(Array Int "+sc.sortOf(du.Elem())+")")
	q := fv.qname()
	dOff := sOff(dst.T)
	fv.assume(st, "(forall (("+q+" Int)) (= (select "+row+" "+q+") (ite (and (<= "+dOff+" "+q+") (< "+q+" (+ "+dOff+" "+n+"))) "+srcAt("(- "+q+" "+dOff+")")+" (select (select "+H+" "+sRef(dst.T)+") "+q+"))))")
	fv.frameWrite(st, h, sRef(dst.T), dOff, plus(dOff, n), text, "(> "+n+" 0)")
	nh := fv.fresh(h, sc.heaps[h])
	fv.assume(st, "(= "+nh+" (ite (> "+n+" 0) (store "+H+" "+sRef(dst.T)+" "+row+") "+H+"))")
	st.heaps[h] = nh
	return Val{T: n, Ty: t}
}

func (fv *FuncVerifier) evalAppend(st *State, e *ast.CallExpr, t types.Type) Val {
	sc := fv.eng.sc
	su, ok := t.Underlying().(*types.Slice)
	if !ok {
		fv.unsupported("append to non-slice")
		return fv.havocVal(st, "app", t)
	}
	s := fv.eval(st, e.Args[0])
	s.T = fv.nameTerm(st, s.T, "Slice")
	h := sc.sliceHeap(su.Elem())
	var n string
	var elemAt func(j string) string
	if e.Ellipsis.IsValid() {
		src := fv.eval(st, e.Args[1])
		src.T = fv.nameTerm(st, src.T, sc.sortOf(src.Ty))
		H0 := fv.heapOf(st, h)
		if isString(src.Ty) {
			n = "(gs.len " + src.T + ")"
			elemAt = func(j string) string { return "(gs.at " + src.T + " " + j + ")" }
		} else {
			n = sLen(src.T)
			elemAt = func(j string) string {
				return "(select (select " + H0 + " " + sRef(src.T) + ") (+ " + sOff(src.T) + " " + j + "))"
			}
		}
	} else {
		var elems []string
		for _, a := range e.Args[1:] {
			v := fv.evalElt(st, a, su.Elem())
			elems = append(elems, v.T)
		}
		n = strconv.Itoa(len(elems))
		elemAt = func(j string) string {
			if len(elems) == 0 {
				return sc.zero(su.Elem())
			}
			out := elems[len(elems)-1]
			for i := len(elems) - 2; i >= 0; i-- {
				out = "(ite (= " + j + " " + strconv.Itoa(i) + ") " + elems[i] + " " + out + ")"
			}
			return out
		}
	}
	return fv.appendModel(st, s, su.Elem(), n, elemAt, t, fv.exprText(e))
}

func (fv *FuncVerifier) nameTerm(st *State, term, sort string) string {
	if len(term) < 30 {
		return term
	}
	n := fv.fresh("t", sort)
	fv.assumeGlobal("(= " + n + " " + term + ")")
	return n
}

func (fv *FuncVerifier) appendModel(st *State, s Val, elem types.Type, n string, elemAt func(j string) string, t types.Type, text string) Val {
	sc := fv.eng.sc
	h := sc.sliceHeap(elem)
	H := fv.heapOf(st, h)
	es := sc.sortOf(elem)
	ref, off, ln, cp := sRef(s.T), sOff(s.T), sLen(s.T), sCap(s.T)
	inplace := fv.fresh("inplace", "Bool")
	fv.assume(st, "(= "+inplace+" (<= (+ "+ln+" "+n+") "+cp+"))")
	newcap := fv.fresh("newcap", "Int")
	newref := fv.fresh("newref", "Int")
	res := fv.fresh("appres", "Slice")
	row := fv.fresh("row", "(Array Int "+es+")")
	nl := fv.fresh("newlen", "Int")
	fv.assume(st, "(= "+nl+" (+ "+ln+" "+n+"))")
	fv.assume(st, "(and (= "+newref+" "+st.alloc+") (>= "+newcap+" "+nl+") (< "+newcap+" 4611686018427387904))")
	fv.assume(st, "(= "+res+" (ite "+inplace+" (mkSlice "+ref+" "+off+" "+nl+" "+cp+") (mkSlice "+newref+" 0 "+nl+" "+newcap+")))")
	q := fv.qname()
	base := "(ite " + inplace + " " + off + " 0)"
	oldrow := "(select " + H + " " + ref + ")"
	fv.assume(st, "(forall (("+q+" Int)) (= (select "+row+" "+q+") (ite (and (<= (+ "+base+" "+ln+") "+q+") (< "+q+" (+ "+base+" "+nl+"))) "+elemAt("(- "+q+" (+ "+base+" "+ln+"))")+" (ite "+inplace+" (select "+oldrow+" "+q+") (ite (and (<= 0 "+q+") (< "+q+" "+ln+")) (select "+oldrow+" (+ "+off+" "+q+")) "+sc.zero(elem)+")))))")
	fv.frameWrite(st, h, ref, plus(off, ln), "(+ "+off+" "+nl+")", text, "(and "+inplace+" (> "+n+" 0))")
	nh := fv.fresh(h, sc.heaps[h])
	fv.assume(st, "(= "+nh+" (store "+H+" (ite "+inplace+" "+ref+" "+newref+") "+row+"))")
	st.heaps[h] = nh
	na := fv.fresh("alloc", "Int")
	fv.assume(st, "(= "+na+" (ite "+inplace+" "+st.alloc+" (+ "+st.alloc+" 1)))")
	st.alloc = na
	return Val{T: res, Ty: t}
}

// reachHeaps lists heaps that may be reached from a value of type t.
func (fv *FuncVerifier) reachHeaps(t types.Type, seen map[string]bool, out map[string]bool) bool {
	if t == nil {
		return false
	}
	k := t.String()
	if seen[k] {
		return false
	}
	seen[k] = true
	sc := fv.eng.sc
	all := false
	switch u := t.Underlying().(type) {
	case *types.Slice:
		out[sc.sliceHeap(u.Elem())] = true
		all = fv.reachHeaps(u.Elem(), seen, out) || all
	case *types.Pointer:
		out[sc.ptrHeap(u.Elem())] = true
		all = fv.reachHeaps(u.Elem(), seen, out) || all
	case *types.Array:
		all = fv.reachHeaps(u.Elem(), seen, out) || all
	case *types.Struct:
		for i := 0; i < u.NumFields(); i++ {
			all = fv.reachHeaps(u.Field(i).Type(), seen, out) || all
		}
	case *types.Map:
		hv, hh := sc.mapHeaps(u)
		out[hv], out[hh] = true, true
		all = fv.reachHeaps(u.Elem(), seen, out) || all
	case *types.Interface, *types.Signature, *types.Chan:
		return true
	}
	return all
}

// havocHeaps replaces the given heaps by fresh ones (all known heaps if all is set).
func (fv *FuncVerifier) havocHeaps(st *State, hs map[string]bool, all bool) {
	if all {
		for h := range fv.eng.sc.heaps {
			hs[h] = true
		}
		fv.eng.havocAllSeen = true
	}
	na := fv.fresh("alloc", "Int")
	fv.assume(st, "(>= "+na+" "+st.alloc+")")
	st.alloc = na
	for _, h := range sortedKeys(hs) {
		fv.heapOf(st, h)
		st.heaps[h] = fv.fresh(h, fv.eng.sc.heaps[h])
		fv.heapClosure(h, st.heaps[h], na)
	}
}

// callUnknown: no contract, no model — results and reachable memory are arbitrary.
func (fv *FuncVerifier) callUnknown(st *State, e *ast.CallExpr, recv *Val, what string) []Val {
	if fv.abstracted == nil {
		fv.abstracted = map[string]bool{}
	}
	fv.abstracted[what] = true
	hs := map[string]bool{}
	all := false
	seen := map[string]bool{}
	if recv != nil {
		all = fv.reachHeaps(recv.Ty, seen, hs) || all
	}
	for _, a := range e.Args {
		v := fv.eval(st, a)
		if v.Ty != nil {
			all = fv.reachHeaps(v.Ty, seen, hs) || all
		}
	}
	var rts []types.Type
	if sig, ok := fv.typeOf(e.Fun).(*types.Signature); ok {
		rts = resultTypes(sig)
	} else if t := fv.typeOf(e); t != nil {
		if tup, ok := t.(*types.Tuple); ok {
			for i := 0; i < tup.Len(); i++ {
				rts = append(rts, tup.At(i).Type())
			}
		} else {
			rts = []types.Type{t}
		}
	}
	for _, rt := range rts {
		fv.reachHeaps(rt, seen, hs)
	}
	if fv.eng.pureExternal(what) {
		hs, all = map[string]bool{}, false
		for _, rt := range rts {
			fv.reachHeaps(rt, map[string]bool{}, hs)
		}
	}
	fv.havocHeaps(st, hs, all)
	if all {
		for _, g := range fv.eng.contracts.GhostOrder {
			kind := fv.eng.contracts.GhostVars[g]
			st.ghost[g] = Val{T: fv.fresh("gv_"+g, ghostSort(kind)), Sort: ghostSort(kind)}
		if kind == "nat" {
			fv.assumeGlobal("(>= " + st.ghost[g].T + " 0)")
		}
		}
	}
	var out []Val
	for i, rt := range rts {
		v := fv.havocVal(st, fmt.Sprintf("ret%d", i), rt)
		for _, r := range fv.refTerms(v.T, rt, 0) {
			fv.assume(st, "(< "+r+" "+st.alloc+")")
		}
		out = append(out, v)
	}
	return out
}

// inlineClosure executes a local closure body in the caller's state.
func (fv *FuncVerifier) inlineClosure(st *State, lit *ast.FuncLit, args []ast.Expr, name string) []Val {
	sig := fv.typeOf(lit).(*types.Signature)
	var argv []Val
	for _, a := range args {
		argv = append(argv, fv.eval(st, a))
	}
	return fv.inlineClosureVals(st, lit, sig, argv)
}

func (fv *FuncVerifier) inlineClosureVals(st *State, lit *ast.FuncLit, sig *types.Signature, argv []Val) []Val {
	if len(fv.frames) > 12 {
		fv.unsupported("closure nesting too deep")
		var out []Val
		for _, rt := range resultTypes(sig) {
			out = append(out, fv.havocVal(st, "cl", rt))
		}
		return out
	}
	// bind params
	i := 0
	for _, f := range lit.Type.Params.List {
		for _, nm := range f.Names {
			if o := fv.info().ObjectOf(nm); o != nil && i < len(argv) {
				fv.declareVar(st, o.(*types.Var), argv[i].T)
			}
			i++
		}
		if len(f.Names) == 0 {
			i++
		}
	}
	fr := &frameCtx{isClosure: true, sig: sig}
	// results
	if lit.Type.Results != nil {
		k := 0
		for _, f := range lit.Type.Results.List {
			if len(f.Names) == 0 {
				k++
				continue
			}
			for _, nm := range f.Names {
				o := fv.info().ObjectOf(nm).(*types.Var)
				fv.declareVar(st, o, fv.eng.sc.zero(o.Type()))
				fr.results = append(fr.results, o)
				k++
			}
		}
	}
	fv.frames = append(fv.frames, fr)
	saveLoops := fv.loops
	fv.loops = nil
	fv.execBlock(st, lit.Body.List)
	fv.loops = saveLoops
	fv.frames = fv.frames[:len(fv.frames)-1]
	// fallthrough end of body is an implicit return
	if !st.dead {
		fv.doReturn(st, fr, nil, nil)
	}
	m := fv.merge(fr.retStates)
	*st = *m
	var out []Val
	for i, rt := range resultTypes(sig) {
		name := fmt.Sprintf("$cret%d_%d", len(fv.frames), i)
		if v, ok := st.ghost[name]; ok {
			out = append(out, Val{T: v.T, Ty: rt})
			delete(st.ghost, name)
		} else {
			out = append(out, fv.havocVal(st, "cret", rt))
		}
	}
	return out
}

// ---------------- contracted callee ----------------

func (fv *FuncVerifier) paramNames(fn *types.Func) (names []string, tys []types.Type, variadic bool) {
	sig := fn.Type().(*types.Signature)
	for i := 0; i < sig.Params().Len(); i++ {
		p := sig.Params().At(i)
		names = append(names, p.Name())
		tys = append(tys, p.Type())
	}
	return names, tys, sig.Variadic()
}

func (fv *FuncVerifier) callContract(st *State, e *ast.CallExpr, fn *types.Func, c *Contract, recv *Val) []Val {
	sc := fv.eng.sc
	sig := fn.Type().(*types.Signature)
	text := fv.exprText(e)
	site := c.Key
	k := fv.callOcc[site]
	fv.callOcc[site] = k + 1
	siteKey := fmt.Sprintf("%s#%d", site, k)

	vars := map[string]Val{}
	names, tys, variadic := fv.paramNames(fn)
	if variadic && !e.Ellipsis.IsValid() {
		fv.unsupported("variadic call to contracted function " + fn.Name())
		return fv.callUnknown(st, e, recv, fn.FullName())
	}
	for i, a := range e.Args {
		if i >= len(names) {
			break
		}
		v := fv.eval(st, a)
		v = fv.convertAssign(st, v, tys[i])
		v.T = fv.nameTerm(st, v.T, sc.sortOf(tys[i]))
		vars[names[i]] = Val{T: v.T, Ty: tys[i]}
		vars[fmt.Sprintf("arg%d", i)] = vars[names[i]]
	}
	if recv != nil && sig.Recv() != nil {
		rn := sig.Recv().Name()
		if rn == "" || rn == "_" {
			rn = "recv"
		}
		vars[rn] = Val{T: recv.T, Ty: sig.Recv().Type()}
		vars["recv"] = vars[rn]
		if _, isPtr := sig.Recv().Type().Underlying().(*types.Pointer); isPtr {
			fv.oblige(st, "nil", "receiver of "+text, "(not (= "+recv.T+" 0))")
		}
	}
	// ghost arguments
	var errs []string
	own := fv.ownEnv(st, &errs)
	ghostOK := true
	if ga, ok := fv.contract.CallGhostFor(siteKey); ok {
		for _, g := range c.Ghost {
			if ex, ok := ga[g.Name]; ok {
				v := own.eval(ex)
				vars[g.Name] = Val{T: v.T, Sort: ghostSort(g.Kind)}
			} else {
				ghostOK = false
			}
		}
	} else if len(c.Ghost) > 0 {
		ghostOK = false
	}
	pre := st.clone()
	calleePkg := fv.eng.pkgOf(fn)
	mkEnv := func(cur *State, extra map[string]Val) *specEnv {
		env := &specEnv{fv: fv, st: cur, old: pre, vars: map[string]Val{}, err: &errs}
		if calleePkg != nil {
			env.pkgScope = calleePkg.Scope()
		}
		for k, v := range vars {
			env.vars[k] = v
		}
		for k, v := range extra {
			env.vars[k] = v
		}
		return env
	}
	mentionsGhost := func(cl Clause) bool {
		for _, g := range c.Ghost {
			if mentionsIdent(cl.Expr, g.Name) {
				return true
			}
		}
		return false
	}
	// preconditions
	for i, r := range c.Requires {
		if !ghostOK && mentionsGhost(r) {
			// no witnesses supplied: the precondition cannot be established
			fv.oblige(st, "pre", fmt.Sprintf("%s requires[%s] (no ghost witnesses at call site %s)", c.Key, clauseName(r, i), siteKey), "false")
			continue
		}
		g := mkEnv(st, nil).eval(r.Expr)
		fv.oblige(st, "pre", fmt.Sprintf("%s requires[%s] %s", c.Key, clauseName(r, i), r.Text), g.T)
	}
	// effects
	hs := map[string]bool{}
	seen := map[string]bool{}
	rts := resultTypes(sig)
	type modr struct {
		heap, ref, lo, hi string
		whole          bool
	}
	var mods []modr
	if !c.Pure {
		for _, rt := range rts {
			fv.reachHeaps(rt, seen, hs)
		}
		for _, m := range c.Modifies {
			regs := fv.modRegions(mkEnv(st, nil), m.Expr)
			for _, r := range regs {
				mods = append(mods, modr{r.heap, r.ref, r.lo, r.hi, r.whole})
				hs[r.heap] = true
				if t := sc.tkeys[r.heap]; t != nil && c.Flags["noalloc"] == "" {
					// values written may refer to objects the callee allocated: those heaps get a new version too
					// (a callee that allocates nothing -- flag noalloc -- can only store references that existed)
					fv.reachHeaps(t, seen, hs)
				}
				fv.frameWrite(st, r.heap, r.ref, r.lo, r.hi, "call "+text+" modifies "+m.Text, "")
			}
		}
		// new heaps with frame
		oldAlloc := st.alloc
		for _, h := range sortedKeys(hs) {
			H := fv.heapOf(st, h)
			nh := fv.fresh(h, sc.heaps[h])
			q := fv.qname()
			except := "true"
			var partial []string
			for _, m := range mods {
				if m.heap != h {
					continue
				}
				except = and(except, "(not (= "+q+" "+m.ref+"))")
				if !m.whole && m.lo != "" && strings.HasPrefix(h, "HS_") {
					q2 := fv.qname()
					partial = append(partial, "(forall (("+q2+" Int)) (=> (or (< "+q2+" "+m.lo+") (>= "+q2+" "+m.hi+")) (= (select (select "+nh+" "+m.ref+") "+q2+") (select (select "+H+" "+m.ref+") "+q2+"))))")
				}
			}
			fv.assume(st, "(forall (("+q+" Int)) (=> (and (< "+q+" "+oldAlloc+") "+except+") (= (select "+nh+" "+q+") (select "+H+" "+q+"))))")
			for _, p := range partial {
				fv.assume(st, p)
			}
			st.heaps[h] = nh
			// the modified objects still hold values of their type (lengths are non-negative, bytes are bytes, ...)
			if t := sc.tkeys[h]; t != nil && strings.HasPrefix(h, "HP_") {
				for _, m := range mods {
					if m.heap == h {
						for _, inv := range sc.typeInv("(select "+nh+" "+m.ref+")", t, 0) {
							fv.assume(st, inv)
						}
					}
				}
			}
		}
		na := st.alloc
		if c.Flags["noalloc"] == "" {
			na = fv.fresh("alloc", "Int")
			fv.assume(st, "(>= "+na+" "+st.alloc+")")
			st.alloc = na
		}
		for _, h := range sortedKeys(hs) {
			fv.heapClosure(h, st.heaps[h], na)
		}
	} else if c.Flags["allocs"] != "" {
		// a callee that changes nothing the caller can see but hands out objects it created (through ghost state):
		// the allocation mark moves, so that allocated(x) in its postcondition speaks about the state after the call
		na := fv.fresh("alloc", "Int")
		fv.assume(st, "(>= "+na+" "+st.alloc+")")
		st.alloc = na
	}
	// ghost variables the callee may update
	for _, g := range c.Updates {
		kind, ok := fv.eng.contracts.GhostVars[g]
		if !ok {
			fv.unsupported("updates of undeclared ghost variable " + g)
			continue
		}
		st.ghost[g] = Val{T: fv.fresh("gv_"+g, ghostSort(kind)), Sort: ghostSort(kind)}
		if kind == "nat" {
			fv.assumeGlobal("(>= " + st.ghost[g].T + " 0)")
		}
	}
	// results
	extra := map[string]Val{}
	var out []Val
	for i, rt := range rts {
		v := fv.havocVal(st, fmt.Sprintf("%s_r%d", fn.Name(), i), rt)
		for _, r := range fv.refTerms(v.T, rt, 0) {
			fv.assume(st, "(< "+r+" "+st.alloc+")")
		}
		out = append(out, v)
		extra[fmt.Sprintf("result%d", i)] = v
		if i == 0 {
			extra["result"] = v
		}
		if nm := sig.Results().At(i).Name(); nm != "" && nm != "_" {
			extra[nm] = v
		} else if i == len(rts)-1 && isErrorType(rt) {
			extra["err"] = v
		}
	}
	for _, gr := range c.GhostRet {
		extra[gr.Name] = Val{T: fv.fresh("gret_"+gr.Name, ghostSort(gr.Kind)), Sort: ghostSort(gr.Kind)}
		// witnesses of the most recent call are visible to the caller's own specs under the callee's name
		st.ghost[gr.Name] = extra[gr.Name]
	}
	for _, en := range c.Ensures {
		if !ghostOK && mentionsGhost(en) {
			continue
		}
		g := mkEnv(st, extra).eval(en.Expr)
		fv.assume(st, g.T)
	}
	if len(errs) > 0 {
		fv.unsupported("spec errors at call " + text + ": " + strings.Join(errs, "; "))
	}
	// callback parameter: the callee applies the given local closure to an arbitrary number of rows;
	// modelled as a loop (ordinal as any other loop) whose body is the inlined closure on an arbitrary row
	if cb := c.Flags["callback"]; cb != "" {
		for i, nm := range names {
			if nm != cb || i >= len(e.Args) {
				continue
			}
			id, ok := unparen(e.Args[i]).(*ast.Ident)
			if !ok {
				fv.note("callback argument of " + c.Key + " is not a local closure: its effects are not modelled")
				continue
			}
			o, _ := fv.info().ObjectOf(id).(*types.Var)
			lit := fv.closures[o]
			if lit == nil {
				fv.note("callback argument of " + c.Key + " is not a local closure: its effects are not modelled")
				continue
			}
			lsig := fv.typeOf(lit).(*types.Signature)
			rowReq := c.Flags["callbackrow"]
			ord := fv.nextLoopOrd()
			lp := &loopParts{ord: ord, pos: e.Pos()}
			lp.cond = func(st *State) string { return fv.fresh("more", "Bool") }
			lp.body = func(st *State) {
				var argv []Val
				for k := 0; k < lsig.Params().Len(); k++ {
					v := fv.havocVal(st, "row", lsig.Params().At(k).Type())
					for _, r := range fv.refTerms(v.T, lsig.Params().At(k).Type(), 0) {
						fv.assume(st, "(< "+r+" "+st.alloc+")")
					}
					argv = append(argv, v)
				}
				if rowReq != "" && len(argv) > 0 {
					if ex, err := parseSpecExpr(rowReq); err == nil {
						var es []string
						env := fv.ownEnv(st, &es)
						env.vars["row"] = argv[0]
						fv.assume(st, env.eval(ex).T)
					}
				}
				fv.inlineClosureVals(st, lit, lsig, argv)
			}
			lp.post = func(st *State) {}
			fv.execLoop(st, lp)
		}
	}
	return out
}

func clauseName(c Clause, i int) string {
	if c.Name != "" {
		return c.Name
	}
	return strconv.Itoa(i)
}

func (c *Contract) CallGhostFor(site string) (map[string]ast.Expr, bool) {
	if c == nil {
		return nil, false
	}
	m, ok := c.CallGhost[site]
	return m, ok
}

func mentionsIdent(e ast.Expr, name string) bool {
	found := false
	ast.Inspect(e, func(n ast.Node) bool {
		if id, ok := n.(*ast.Ident); ok && id.Name == name {
			found = true
		}
		return !found
	})
	return found
}

// modRegions interprets a modifies expression: s[lo:hi] | s (whole slice contents) | *p | p (pointer cell)
func (fv *FuncVerifier) modRegions(env *specEnv, e ast.Expr) []modRegion {
	sc := fv.eng.sc
	switch x := e.(type) {
	case *ast.SliceExpr:
		base := env.eval(x.X)
		if base.Ty == nil {
			return nil
		}
		su, ok := base.Ty.Underlying().(*types.Slice)
		if !ok {
			return nil
		}
		lo, hi := "0", sLen(base.T)
		if x.Low != nil {
			lo = env.eval(x.Low).T
		}
		if x.High != nil {
			hi = env.eval(x.High).T
		}
		return []modRegion{{heap: sc.sliceHeap(su.Elem()), ref: sRef(base.T), lo: plus(sOff(base.T), lo), hi: plus(sOff(base.T), hi)}}
	case *ast.StarExpr:
		return fv.modRegions(env, x.X)
	}
	v := env.eval(e)
	if v.Ty == nil {
		return nil
	}
	switch u := v.Ty.Underlying().(type) {
	case *types.Slice:
		return []modRegion{{heap: sc.sliceHeap(u.Elem()), ref: sRef(v.T), lo: sOff(v.T), hi: plus(sOff(v.T), sLen(v.T))}}
	case *types.Pointer:
		return []modRegion{{heap: sc.ptrHeap(u.Elem()), ref: v.T, whole: true}}
	case *types.Map:
		hv, hh := sc.mapHeaps(u)
		return []modRegion{{heap: hv, ref: v.T, whole: true}, {heap: hh, ref: v.T, whole: true}}
	}
	return nil
}
