// Bounded stand-in for the clauses of property C13 that live in dependencies the deductive engine only has
// assumed contracts for (miekg/dns Pack, coredns Scrub/SizeAndDo):
//
//	forall wire-valid query q, database D: the handler does not panic; what it writes packs; the reply carries
//	q's ID and question with QR set; over UDP its packed size is within the size q advertised (512 without
//	EDNS) or TC is set; an EDNS version other than 0 gets BADVERS; an OPT is present iff q had one.
//
// BOUND: the product of 9 names (root, apex, existing, missing, 63-byte label, 255-byte name, wildcard match,
// delegated, non-wildsafe) x 9 types (A, NS, SOA, TXT, DS, ANY, 0, 65535, AXFR) x 3 classes x 3 opcodes for
// plain queries, and x 11 EDNS variants (sizes 0/512/1232/65535, version 1, DO, unknown option, client-subnet
// of families 0/1/2 with edge netmasks) for class IN / opcode QUERY; three databases (a zone with a large TXT
// set, a root zone with a root delegation, an empty database) x three storage configurations; every query goes
// through a Pack/Unpack round trip first. Labelled bounded; never counted as proved.
package dnsserver

import (
	"fmt"
	"net"
	"os"
	"path"
	"strings"
	"testing"

	"github.com/coredns/coredns/plugin/pkg/dnstest"
	"github.com/miekg/dns"

	"github.com/facebookincubator/dns/dnsrocks/dnsdata/cdb"
	"github.com/facebookincubator/dns/dnsrocks/dnsdata/rdb"
	"github.com/facebookincubator/dns/dnsrocks/dnsserver/stats"
	"github.com/facebookincubator/dns/dnsrocks/dnsserver/test"
)

type vsDiscard struct{}

func (vsDiscard) Write(p []byte) (int, error) { return len(p), nil }

func vsBuild(t *testing.T, root, name, data string) []*FBDNSDB {
	dir := path.Join(root, name)
	os.Mkdir(dir, 0o755)
	in := path.Join(dir, "data.in")
	if err := os.WriteFile(in, []byte(data), 0o644); err != nil {
		t.Fatal(err)
	}
	cdbPath := path.Join(dir, "data.cdb")
	if _, err := cdb.CreateCDB(in, cdbPath, cdb.NewDefaultCreatorOptions()); err != nil {
		t.Fatal(err)
	}
	v1, v2 := path.Join(dir, "v1"), path.Join(dir, "v2")
	os.Mkdir(v1, 0o755)
	os.Mkdir(v2, 0o755)
	if _, err := rdb.CompileToSpecificRDBVersion(in, v1, rdb.CompilationOptions{}); err != nil {
		t.Fatal(err)
	}
	if _, err := rdb.CompileToSpecificRDBVersion(in, v2, rdb.CompilationOptions{UseV2KeySyntax: true}); err != nil {
		t.Fatal(err)
	}
	var out []*FBDNSDB
	for _, c := range []struct{ p, d string }{{cdbPath, "cdb"}, {v1, "rocksdb"}, {v2, "rocksdb"}} {
		h, err := NewFBDNSDBBasic(HandlerConfig{}, DBConfig{Path: c.p, Driver: c.d, ReloadInterval: 100}, CacheConfig{Enabled: true, LRUSize: 64},
			&TextLogger{IoWriter: vsDiscard{}}, &stats.DummyStats{})
		if err != nil {
			t.Fatal(err)
		}
		if err := h.Load(); err != nil {
			t.Fatal(err)
		}
		t.Cleanup(func() { h.Close() })
		out = append(out, h)
	}
	return out
}

func TestVerifBoundedReplyShape(t *testing.T) {
	var big strings.Builder
	big.WriteString("Zexample.com,a.ns.example.com,dns.example.com,123,7200,1800,604800,120,120,,\n&example.com,,a.ns.example.com,172800,,\n+a.ns.example.com,5.5.5.5,172800,,\n")
	big.WriteString("+www.example.com,1.1.1.1,180,,\n+*.wild.example.com,2.2.2.2,180,,\n&sub.example.com,,ns.sub.example.com,172800,,\n+ns.sub.example.com,6.6.6.6,172800,,\n")
	big.WriteString("%lA,10.1.0.0/16,ec\n8www.example.com,ec\n")
	for i := 0; i < 40; i++ {
		fmt.Fprintf(&big, "'big.example.com,%s-%02d,300,,\n", strings.Repeat("x", 60), i)
	}
	rootZone := "Z.,a.root-servers.net,nstld.verisign-grs.com,1,1800,900,604800,86400,86400,,\n&.,,a.root-servers.net,518400,,\n+a.root-servers.net,198.41.0.4,518400,,\n&com,,a.gtld-servers.net,172800,,\n+a.gtld-servers.net,192.5.6.30,172800,,\n"
	rootDeleg := "&.,,a.root-servers.net,518400,,\n+a.root-servers.net,198.41.0.4,518400,,\n"
	empty := "# nothing\n"
	tmp := t.TempDir()
	dbs := map[string][]*FBDNSDB{"zone": vsBuild(t, tmp, "zone", big.String()), "root": vsBuild(t, tmp, "root", rootZone), "rootdeleg": vsBuild(t, tmp, "rootdeleg", rootDeleg), "empty": vsBuild(t, tmp, "empty", empty)}

	label63 := strings.Repeat("a", 63)
	long := strings.Repeat(strings.Repeat("b", 61)+".", 4) // 4 x 62 = 248 bytes + root
	names := []string{".", "example.com.", "www.example.com.", "nx.example.com.", label63 + ".example.com.", long, "x.wild.example.com.", "host.sub.example.com.", "bad!.wild.example.com.", "big.example.com."}
	types := []uint16{dns.TypeA, dns.TypeNS, dns.TypeSOA, dns.TypeTXT, dns.TypeDS, dns.TypeANY, 0, 65535, dns.TypeAXFR}
	classes := []uint16{dns.ClassINET, dns.ClassCHAOS, dns.ClassANY}
	opcodes := []int{dns.OpcodeQuery, dns.OpcodeNotify, dns.OpcodeUpdate}
	type ednsVariant struct {
		name string
		opt  func() *dns.OPT
	}
	mkOpt := func(size uint16, version uint8, do bool, opts ...dns.EDNS0) func() *dns.OPT {
		return func() *dns.OPT {
			o := &dns.OPT{Hdr: dns.RR_Header{Name: ".", Rrtype: dns.TypeOPT}}
			o.SetUDPSize(size)
			o.SetVersion(version)
			if do {
				o.SetDo()
			}
			o.Option = append(o.Option, opts...)
			return o
		}
	}
	ecs := func(fam uint16, mask uint8, ip net.IP) dns.EDNS0 {
		return &dns.EDNS0_SUBNET{Code: dns.EDNS0SUBNET, Family: fam, SourceNetmask: mask, Address: ip}
	}
	variants := []ednsVariant{
		{"none", nil},
		{"size0", mkOpt(0, 0, false)}, {"size512", mkOpt(512, 0, false)}, {"size1232", mkOpt(1232, 0, false)}, {"size65535", mkOpt(65535, 0, true)},
		{"version1", mkOpt(4096, 1, false)},
		{"unknown-option", mkOpt(4096, 0, false, &dns.EDNS0_LOCAL{Code: 65001, Data: []byte{1, 2, 3}})},
		{"ecs4/24", mkOpt(4096, 0, false, ecs(1, 24, net.ParseIP("10.1.2.0").To4()))},
		{"ecs4/0", mkOpt(4096, 0, false, ecs(1, 0, net.ParseIP("0.0.0.0").To4()))},
		{"ecs4/32", mkOpt(4096, 0, false, ecs(1, 32, net.ParseIP("10.1.2.3").To4()))},
		{"ecs6/128", mkOpt(4096, 0, false, ecs(2, 128, net.ParseIP("2001:db8::1")))},
		{"ecs6/mapped", mkOpt(4096, 0, false, ecs(2, 120, net.ParseIP("::ffff:10.1.2.0")))},
		{"ecs0", mkOpt(4096, 0, false, ecs(0, 0, nil))},
	}
	cases, fails := 0, 0
	known := map[string]bool{}
	for _, k := range strings.Fields(os.Getenv("VERIF_KNOWN")) {
		known[k] = true
	}
	perKind := map[string]int{}
	// every failure has a kind; kinds listed in /verif/known_findings.txt (passed in VERIF_KNOWN) are reported as
	// BOUNDED-KNOWN and do not fail the check; the list is never extended at run time
	bad := func(kind, format string, a ...interface{}) {
		perKind[kind]++
		if known[kind] {
			if perKind[kind] == 1 {
				fmt.Printf("BOUNDED-KNOWN %s "+format+"\n", append([]interface{}{kind}, a...)...)
			}
			return
		}
		fails++
		if perKind[kind] <= 3 {
			fmt.Printf("BOUNDED-FAIL kind=%s "+format+"\n", append([]interface{}{kind}, a...)...)
		}
	}
	run := func(dbName string, hi int, h *FBDNSDB, name string, qt, qc uint16, opcode int, v ednsVariant) {
		q := new(dns.Msg)
		q.Id = uint16(1000 + cases%60000)
		q.Opcode = opcode
		q.RecursionDesired = cases%2 == 0
		q.Question = []dns.Question{{Name: name, Qtype: qt, Qclass: qc}}
		if v.opt != nil {
			q.Extra = append(q.Extra, v.opt())
		}
		wire, err := q.Pack()
		if err != nil {
			return // not a wire-valid query: outside the quantifier
		}
		req := new(dns.Msg)
		if err := req.Unpack(wire); err != nil {
			return
		}
		cases++
		desc := fmt.Sprintf("db=%s/%d %s type=%d class=%d opcode=%d edns=%s", dbName, hi, name, qt, qc, opcode, v.name)
		rec := dnstest.NewRecorder(&test.ResponseWriterCustomRemote{RemoteIP: "10.1.0.9"})
		func() {
			defer func() {
				if e := recover(); e != nil {
					bad("panic", "%s: PANIC %v", desc, e)
				}
			}()
			h.ServeDNSWithRCODE(CreateTestContext(8), rec, req)
		}()
		m := rec.Msg
		if m == nil {
			return // "a well-formed reply or none"
		}
		packed, err := m.Pack()
		if err != nil {
			bad("unpackable", "%s: the reply does not pack: %v", desc, err)
			return
		}
		if m.Id != req.Id || !m.Response {
			bad("id-or-qr", "%s: reply id=%d qr=%v for query id=%d", desc, m.Id, m.Response, req.Id)
		}
		if len(m.Question) != 1 || m.Question[0] != req.Question[0] {
			kind := "question"
			if m.Rcode == dns.RcodeBadVers && len(m.Question) == 0 {
				kind = "badvers-no-question"
			}
			bad(kind, "%s: reply question %v, query question %v", desc, m.Question, req.Question)
		}
		limit := 512
		if o := req.IsEdns0(); o != nil && int(o.UDPSize()) > limit {
			limit = int(o.UDPSize())
		}
		if len(packed) > limit && !m.Truncated {
			bad("oversize", "%s: reply of %d bytes exceeds the advertised %d without TC", desc, len(packed), limit)
		}
		ro := m.IsEdns0()
		if (ro != nil) != (req.IsEdns0() != nil) {
			bad("opt-mirror", "%s: OPT in reply=%v, OPT in query=%v", desc, ro != nil, req.IsEdns0() != nil)
		}
		if o := req.IsEdns0(); o != nil && o.Version() != 0 {
			if ro == nil || m.Rcode != dns.RcodeBadVers {
				bad("badvers", "%s: EDNS version %d answered with rcode %d", desc, o.Version(), m.Rcode)
			}
		}
	}
	for dbName, hs := range dbs {
		for hi, h := range hs {
			for _, n := range names {
				for _, qt := range types {
					for _, qc := range classes {
						for _, op := range opcodes {
							run(dbName, hi, h, n, qt, qc, op, variants[0])
						}
					}
					for _, v := range variants[1:] {
						run(dbName, hi, h, n, qt, dns.ClassINET, dns.OpcodeQuery, v)
					}
				}
			}
		}
	}
	fmt.Printf("BOUNDED-CASES %d\n", cases)
	fmt.Printf("BOUNDED-SAMPLE 4 databases x 3 storage configurations x 10 names x 9 types x (3 classes x 3 opcodes + 12 EDNS variants)\n")
	for k, n := range perKind {
		fmt.Printf("BOUNDED-KIND %s %d\n", k, n)
	}
	if fails > 0 {
		t.Fatalf("%d violations", fails)
	}
}
