// Bounded stand-in for the content clauses of appendValues that were removed from the proved contract (the
// quantified byte-copy invariants over two appends per iteration are unstable in all three solvers), and for
// the map-of-lists lemma that joins appendValues, delValue and ReadNextChunk (property C15):
//
//	decode(appendValues(encode(L), vs)) == L ++ vs            (and the old bytes are a prefix of the new)
//	delValue(encode(L), v) == encode(L minus the FIRST occurrence of v), or ErrNXVal when v is not in L
//	decode(encode(L)) == L                                     where decode = ReadNextChunk until io.EOF
//
// BOUND: every list L of 0..3 values and every vs of 0..2 values (thorough: 0..4 / 0..3) over the value universe
// {"", "a", "ab", "\x00\x00\x00\x00", 300 bytes of 0xff}; buffers with and without spare capacity.
// Labelled bounded; never counted as proved.
package rdb

import (
	"bytes"
	"encoding/binary"
	"errors"
	"fmt"
	"io"
	"os"
	"testing"
)

func vbEncode(l [][]byte, spare int) []byte {
	var out []byte
	for _, v := range l {
		var h [4]byte
		binary.LittleEndian.PutUint32(h[:], uint32(len(v)))
		out = append(append(out, h[:]...), v...)
	}
	buf := make([]byte, len(out), len(out)+spare)
	copy(buf, out)
	return buf
}

func vbDecode(data []byte) ([][]byte, error) {
	var out [][]byte
	for {
		v, rest, err := ReadNextChunk(data)
		if errors.Is(err, io.EOF) {
			return out, nil
		}
		if err != nil {
			return out, err
		}
		out = append(out, append([]byte{}, v...))
		data = rest
	}
}

func vbSame(a, b [][]byte) bool {
	if len(a) != len(b) {
		return false
	}
	for i := range a {
		if !bytes.Equal(a[i], b[i]) {
			return false
		}
	}
	return true
}

func TestVerifBoundedMultiValue(t *testing.T) {
	universe := [][]byte{{}, []byte("a"), []byte("ab"), {0, 0, 0, 0}, bytes.Repeat([]byte{0xff}, 300)}
	maxL, maxV := 3, 2
	if os.Getenv("VERIF_TIER") == "thorough" {
		maxL, maxV = 4, 3
	}
	var lists func(n int) [][][]byte
	lists = func(n int) [][][]byte {
		out := [][][]byte{{}}
		if n == 0 {
			return out
		}
		for _, l := range lists(n - 1) {
			if len(l) == n-1 {
				for _, v := range universe {
					out = append(out, append(append([][]byte{}, l...), v))
				}
			}
		}
		// also all shorter lists
		seen := map[string]bool{}
		var uniq [][][]byte
		for _, l := range append(lists(n-1), out...) {
			k := fmt.Sprintf("%q", l)
			if !seen[k] {
				seen[k] = true
				uniq = append(uniq, l)
			}
		}
		return uniq
	}
	cases, fails := 0, 0
	bad := func(format string, a ...interface{}) {
		fails++
		if fails <= 20 {
			fmt.Printf("BOUNDED-FAIL "+format+"\n", a...)
		}
	}
	for _, l := range lists(maxL) {
		for _, spare := range []int{0, 7, 1024} {
			// decode(encode(L)) == L
			cases++
			if got, err := vbDecode(vbEncode(l, spare)); err != nil || !vbSame(got, l) {
				bad("decode(encode(%q)) = %q, %v", l, got, err)
			}
			for _, vs := range lists(maxV) {
				cases++
				old := vbEncode(l, spare)
				snapshot := append([]byte{}, old...)
				res := appendValues(old, vs)
				if !bytes.HasPrefix(res, snapshot) {
					bad("appendValues(encode(%q), %q): the old bytes are not a prefix of the result", l, vs)
				}
				if got, err := vbDecode(res); err != nil || !vbSame(got, append(append([][]byte{}, l...), vs...)) {
					bad("decode(appendValues(encode(%q), %q)) = %q, %v", l, vs, got, err)
				}
			}
			for _, v := range universe {
				cases++
				res, err := delValue(vbEncode(l, spare), v)
				idx := -1
				for i, x := range l {
					if bytes.Equal(x, v) {
						idx = i
						break
					}
				}
				if idx < 0 {
					if !errors.Is(err, ErrNXVal) {
						bad("delValue(encode(%q), %q): %v, want ErrNXVal", l, v, err)
					}
					continue
				}
				want := append(append([][]byte{}, l[:idx]...), l[idx+1:]...)
				if got, derr := vbDecode(res); err != nil || derr != nil || !vbSame(got, want) {
					bad("delValue(encode(%q), %q) decodes to %q (%v, %v), want %q", l, v, got, err, derr, want)
				}
			}
		}
	}
	fmt.Printf("BOUNDED-CASES %d\n", cases)
	fmt.Printf("BOUNDED-SAMPLE lists of <= %d values, appended lists of <= %d values, 5-value universe, 3 spare capacities\n", maxL, maxV)
	if fails > 0 {
		t.Fatalf("%d violations of the multi-value store laws", fails)
	}
}
