// Bounded stand-in for the dump/rebuild clause of property C16: Make, fed the textual dump of a record sequence,
// produces byte for byte the file the Writer produces for that sequence (hence answers every lookup the same way),
// and Dump of that file reproduces the text. Make streams its input through a buffered reader, so the check uses
// inputs several read-buffers long, with keys of every length around the buffer and hash block boundaries.
//
// BOUND: three record sequences: 700 records with key lengths cycling 0..349 and value lengths cycling 0..22
// (about 160 KiB of text: 40 buffer refills); one record whose key ends exactly at input offset 4096; 64 records of
// one repeated key. Labelled bounded; never counted as proved.
package cdb

import (
	"bytes"
	"fmt"
	"os"
	"path"
	"testing"
)

func TestVerifBoundedMake(t *testing.T) {
	type rec struct{ k, v []byte }
	gen := func(n int, klen, vlen func(i int) int) []rec {
		var out []rec
		for i := 0; i < n; i++ {
			k := make([]byte, klen(i))
			for j := range k {
				k[j] = byte('a' + (i*31+j*7)%26)
			}
			v := make([]byte, vlen(i))
			for j := range v {
				v[j] = byte('0' + (i+j)%10)
			}
			out = append(out, rec{k, v})
		}
		return out
	}
	seqs := map[string][]rec{
		"many":   gen(700, func(i int) int { return i % 350 }, func(i int) int { return i % 23 }),
		"repeat": gen(64, func(i int) int { return 5 }, func(i int) int { return i % 7 }),
	}
	for i := range seqs["repeat"] {
		seqs["repeat"][i].k = []byte("samek")
	}
	// a key that ends exactly where the first 4096-byte read buffer ends
	{
		pad := gen(1, func(int) int { return 10 }, func(int) int { return 4096 - len("+10,3962:") - 10 - len("->") - 1 - len("+100,1:") - 100 })[0]
		edge := gen(1, func(int) int { return 100 }, func(int) int { return 1 })[0]
		edge.k[0] = 'E'
		seqs["edge"] = []rec{pad, edge, gen(1, func(int) int { return 3 }, func(int) int { return 3 })[0]}
	}
	dir := t.TempDir()
	cases, fails := 0, 0
	for name, rs := range seqs {
		var text bytes.Buffer
		wf := path.Join(dir, name+".w.cdb")
		w, err := NewWriter(wf)
		if err != nil {
			t.Fatal(err)
		}
		for _, r := range rs {
			fmt.Fprintf(&text, "+%d,%d:%s->%s\n", len(r.k), len(r.v), r.k, r.v)
			if err := w.Put(r.k, r.v); err != nil {
				t.Fatal(err)
			}
		}
		text.WriteByte('\n')
		if err := w.Close(); err != nil {
			t.Fatal(err)
		}
		mf := path.Join(dir, name+".m.cdb")
		f, err := os.Create(mf)
		if err != nil {
			t.Fatal(err)
		}
		if err := Make(f, bytes.NewReader(text.Bytes())); err != nil {
			t.Fatalf("%s: Make: %v", name, err)
		}
		f.Close()
		cases++
		wb, _ := os.ReadFile(wf)
		mb, _ := os.ReadFile(mf)
		if !bytes.Equal(wb, mb) {
			fails++
			fmt.Printf("BOUNDED-FAIL %s: the file built by Make from the dump text (%d bytes of text) differs from the Writer's file\n", name, text.Len())
		}
		c, err := Open(mf)
		if err != nil {
			t.Fatal(err)
		}
		ctx := NewContext()
		want := map[string][][]byte{}
		var order []string
		for _, r := range rs {
			if _, ok := want[string(r.k)]; !ok {
				order = append(order, string(r.k))
			}
			want[string(r.k)] = append(want[string(r.k)], r.v)
		}
		for _, k := range order {
			cases++
			c.FindStart(ctx)
			var got [][]byte
			for {
				v, err := c.FindNext([]byte(k), ctx)
				if err != nil {
					break
				}
				got = append(got, append([]byte{}, v...))
			}
			ok := len(got) == len(want[k])
			for i := 0; ok && i < len(got); i++ {
				ok = bytes.Equal(got[i], want[k][i])
			}
			if !ok {
				fails++
				if fails <= 10 {
					fmt.Printf("BOUNDED-FAIL %s: key of %d bytes %.20q...: Make's file returns %d values, %d were declared\n", name, len(k), k, len(got), len(want[k]))
				}
			}
		}
		c.Close()
		// Dump reproduces the text
		cases++
		rf, err := os.Open(mf)
		if err != nil {
			t.Fatal(err)
		}
		var dumped bytes.Buffer
		if err := Dump(&dumped, rf); err != nil {
			t.Fatalf("%s: Dump: %v", name, err)
		}
		rf.Close()
		if !bytes.Equal(dumped.Bytes(), text.Bytes()) {
			fails++
			fmt.Printf("BOUNDED-FAIL %s: Dump of the rebuilt file is not the text it was built from\n", name)
		}
	}
	fmt.Printf("BOUNDED-CASES %d\n", cases)
	fmt.Printf("BOUNDED-SAMPLE 700-record sequence (keys 0..349 bytes, 40 buffer refills), a key ending at input offset 4096, 64 values of one key\n")
	if fails > 0 {
		t.Fatalf("%d violations of: Make(dump) == Writer output, every value found in order, Dump(Make(text)) == text", fails)
	}
}
