// Bounded stand-in for the end-to-end clause of property C07 — the compiled RocksDB, read as a map from key to
// multiset of values, equals what the line-by-line codec emits for the file, whatever the compiler setting — for
// the parts of the pipeline the deductive engine reaches only through assumed contracts (the cgo store, the worker
// pool, sort.Slice, SST ingestion):
//
//	forall setting s in S:  dump(Compile(file, s)) == multiset(codec(file))  (+ subnet tables + feature record)
//
// BOUND: one generated data file (330 owner names repeated over 4 rounds so that every batch meets several hundred
// keys stored by earlier batches, a name with 40 values, located and global records, a subnet map, TXT/MX lines);
// S = builder x {1, 4} workers; batches with (size, parallel) in {(default,1), (1,1)*, (7,3), (97,2), (331,4),
// (700,1)} and both key layouts for two of them (*: size 1 on a 60-line prefix of the file); the bulk loader's
// pipeline with small buckets (minimum size / maximum number) in {(50,8), (7,64), (400,3)}.
// Labelled bounded; never counted as proved.
package rdb

import (
	"bytes"
	"fmt"
	"io"
	"log"
	"os"
	"sort"
	"testing"

	"github.com/facebookincubator/dns/dnsrocks/dnsdata"
)

func vbC07File(rounds, names int) []byte {
	var b bytes.Buffer
	b.WriteString("Zexample.com,a.ns.example.com,dns.example.com,,7200,1800,604800,120,120,,\n&example.com,,a.ns.example.com,172800,,\n&example.com,,b.ns.example.com,172800,,\n")
	b.WriteString("%lA,10.1.0.0/16,ec\n%lB,10.2.0.0/16,ec\n%lB,fd8f:a2ea:9f4b::/56,ec\nMexample.com,ec\n")
	for r := 0; r < rounds; r++ {
		for i := 0; i < names; i++ {
			fmt.Fprintf(&b, "+h%03d.example.com,10.%d.%d.%d,3600\n", i, r, i/250, i%250)
			if r == 1 && i%5 == 0 {
				fmt.Fprintf(&b, "+h%03d.example.com,10.9.%d.%d,3600,,lA\n", i, i/250, i%250)
			}
			if r == 2 && i%7 == 0 {
				fmt.Fprintf(&b, "+h%03d.example.com,fd00::%x,3600\n", i, i)
			}
		}
		fmt.Fprintf(&b, "'txt.example.com,round %d,300\n@example.com,,mx%d.example.com,10,300\n", r, r)
	}
	for v := 0; v < 40; v++ {
		fmt.Fprintf(&b, "+many.example.com,192.0.2.%d,60\n", v)
	}
	return b.Bytes()
}

func vbC07Dump(t *testing.T, dir string) map[string][]string {
	r, err := NewReader(dir)
	if err != nil {
		t.Fatal(err)
	}
	defer r.Close()
	m := map[string][]string{}
	it := r.db.CreateIterator(r.readOptions)
	defer it.FreeIterator()
	for it.SeekToFirst(); it.IsValid(); it.Next() {
		k, data := string(it.Key()), it.Value()
		if len(data) == 0 {
			m[k] = append(m[k], "<EMPTY MULTI-VALUE>")
		}
		for len(data) > 0 {
			var v []byte
			v, data, err = ReadNextChunk(data)
			if err != nil {
				m[k] = append(m[k], "<MALFORMED: "+err.Error()+">")
				break
			}
			m[k] = append(m[k], string(v))
		}
	}
	for k := range m {
		sort.Strings(m[k])
	}
	return m
}

func TestVerifBoundedCompileSettings(t *testing.T) {
	old := log.Writer()
	log.SetOutput(io.Discard)
	defer log.SetOutput(old)
	full := vbC07File(4, 330)
	small := bytes.Join(bytes.SplitAfter(full, []byte("\n"))[:60], nil)
	type setting struct {
		name string
		data []byte
		o    CompilationOptions
	}
	settings := []setting{
		{"builder-1", full, CompilationOptions{NumCPU: 1, UseBuilder: true}},
		{"builder-4", full, CompilationOptions{NumCPU: 4, UseBuilder: true}},
		{"builder-4-v2", full, CompilationOptions{NumCPU: 4, UseBuilder: true, UseV2KeySyntax: true}},
		{"batch-default", full, CompilationOptions{NumCPU: 1, BatchNumParallel: 1, BatchSize: DefaultBatchSize}},
		{"batch-1-small", small, CompilationOptions{NumCPU: 1, BatchNumParallel: 1, BatchSize: 1}},
		{"batch-7x3", full, CompilationOptions{NumCPU: 2, BatchNumParallel: 3, BatchSize: 7}},
		{"batch-97x2", full, CompilationOptions{NumCPU: 2, BatchNumParallel: 2, BatchSize: 97}},
		{"batch-331x4", full, CompilationOptions{NumCPU: 4, BatchNumParallel: 4, BatchSize: 331}},
		{"batch-331x4-v2", full, CompilationOptions{NumCPU: 4, BatchNumParallel: 4, BatchSize: 331, UseV2KeySyntax: true}},
		{"batch-700x1", full, CompilationOptions{NumCPU: 1, BatchNumParallel: 1, BatchSize: 700}},
	}
	cases, fails := 0, 0
	for _, s := range settings {
		codec := initCodec(7)
		codec.Features.UseV2Keys = s.o.UseV2KeySyntax
		recs, err := dnsdata.Parse(bytes.NewReader(s.data), codec, 1)
		if err != nil {
			t.Fatal(err)
		}
		want := map[string][]string{}
		for _, r := range recs {
			want[string(r.Key)] = append(want[string(r.Key)], string(r.Value))
		}
		for k := range want {
			sort.Strings(want[k])
		}
		dir, err := os.MkdirTemp("", "verif_c07")
		if err != nil {
			t.Fatal(err)
		}
		if _, err := Compile(bytes.NewReader(s.data), 7, dir, s.o); err != nil {
			t.Fatalf("%s: Compile: %v", s.name, err)
		}
		got := vbC07Dump(t, dir)
		os.RemoveAll(dir)
		cases += len(want)
		bad := 0
		for k, w := range want {
			g := got[k]
			same := len(g) == len(w)
			for i := 0; same && i < len(w); i++ {
				same = g[i] == w[i]
			}
			if !same {
				bad++
				if bad <= 3 {
					fmt.Printf("BOUNDED-FAIL setting=%s key=%q: the codec emits %d values, the database holds %d (first stored: %.40q)\n", s.name, k, len(w), len(g), append(g, "")[0])
				}
			}
		}
		for k := range got {
			if _, ok := want[k]; !ok {
				bad++
				if bad <= 3 {
					fmt.Printf("BOUNDED-FAIL setting=%s: the database holds the key %q that the codec never emits\n", s.name, k)
				}
			}
		}
		if bad > 0 {
			fails += bad
			fmt.Printf("BOUNDED-FAIL setting=%s: %d keys differ\n", s.name, bad)
		}
	}
	// the bulk loader with SEVERAL buckets (Execute itself needs > 30000 records for a second bucket): the same
	// pipeline -- sort, createBuckets, saveBuckets, ingest -- with small buckets
	for _, bs := range [][2]int{{50, 8}, {7, 64}, {400, 3}} {
		codec := initCodec(7)
		recs, err := dnsdata.Parse(bytes.NewReader(full), codec, 1)
		if err != nil {
			t.Fatal(err)
		}
		want := map[string][]string{}
		dir, err := os.MkdirTemp("", "verif_c07b")
		if err != nil {
			t.Fatal(err)
		}
		b, err := NewBuilder(dir, false)
		if err != nil {
			t.Fatal(err)
		}
		for _, r := range recs {
			want[string(r.Key)] = append(want[string(r.Key)], string(r.Value))
			b.ScheduleAdd(r.Key, r.Value)
		}
		for k := range want {
			sort.Strings(want[k])
		}
		b.sortDataset()
		b.createBuckets(bs[0], bs[1])
		nb := len(b.buckets)
		files, err := b.saveBuckets()
		if err == nil {
			err = b.ingestFiles(files)
		}
		b.FreeBuilder()
		if err != nil {
			t.Fatalf("builder with buckets %v: %v", bs, err)
		}
		got := vbC07Dump(t, dir)
		os.RemoveAll(dir)
		cases += len(want)
		bad := 0
		for k, w := range want {
			g := got[k]
			same := len(g) == len(w)
			for i := 0; same && i < len(w); i++ {
				same = g[i] == w[i]
			}
			if !same {
				bad++
				if bad <= 3 {
					fmt.Printf("BOUNDED-FAIL builder minBucket=%d maxBuckets=%d (%d buckets) key=%q: the codec emits %d values, the database holds %d\n", bs[0], bs[1], nb, k, len(w), len(g))
				}
			}
		}
		for k := range got {
			if _, ok := want[k]; !ok {
				bad++
			}
		}
		if bad > 0 {
			fails += bad
			fmt.Printf("BOUNDED-FAIL builder minBucket=%d maxBuckets=%d (%d buckets): %d keys differ\n", bs[0], bs[1], nb, bad)
		}
	}
	fmt.Printf("BOUNDED-CASES %d\n", cases)
	fmt.Printf("BOUNDED-SAMPLE %d compiler settings over a %d-line data file (330 names x 4 rounds)\n", len(settings), bytes.Count(full, []byte("\n")))
	if fails > 0 {
		t.Fatalf("%d keys whose stored multiset of values is not the codec's", fails)
	}
}
