// Bounded stand-in for the two-contract lemma of property C17, which needs content models of strconv.Quote and
// strconv.UnquoteChar (escape grammar) that the deductive engine does not have:
//
//	forall x: Bunquote(Bquote(x)) == (x, nil)   and   Bquote(x) contains no ',' ':' or newline
//
// BOUND: every byte string of length 0..2 (65 793 strings), every string of length 3 over a 27-byte alphabet of
// separators, quotes, backslashes, control bytes and UTF-8 lead/continuation bytes, and (thorough) length 4 over
// a 12-byte alphabet. Labelled bounded; never counted as proved.
package quote

import (
	"bytes"
	"fmt"
	"os"
	"testing"
)

func TestVerifBoundedQuoteRoundTrip(t *testing.T) {
	cases, fails := 0, 0
	check := func(x []byte) {
		cases++
		in := append([]byte{}, x...)
		q := Bquote(in)
		if !bytes.Equal(in, x) {
			fails++
			if fails <= 20 {
				fmt.Printf("BOUNDED-FAIL x=%q Bquote modified its argument\n", x)
			}
		}
		if bytes.ContainsAny(q, ",:\n") {
			fails++
			if fails <= 20 {
				fmt.Printf("BOUNDED-FAIL x=%q quoted=%q contains a field separator\n", x, q)
			}
		}
		back, err := Bunquote(append([]byte{}, q...))
		if err != nil || !bytes.Equal(back, x) {
			fails++
			if fails <= 20 {
				fmt.Printf("BOUNDED-FAIL x=%q quoted=%q unquoted=%q err=%v\n", x, q, back, err)
			}
		}
	}
	check(nil)
	check([]byte{})
	for a := 0; a < 256; a++ {
		check([]byte{byte(a)})
		for b := 0; b < 256; b++ {
			check([]byte{byte(a), byte(b)})
		}
	}
	alpha3 := []byte{'"', '\\', ',', ':', '\n', '\r', '\t', 0, 1, 0x1f, ' ', 'a', '0', '7', 'x', 'u', 0x7f, 0x80, 0xa0, 0xad, 0xc3, 0xa9, 0xe2, 0xff, 0xef, 0xbf, 0xbd}
	for _, a := range alpha3 {
		for _, b := range alpha3 {
			for _, c := range alpha3 {
				check([]byte{a, b, c})
			}
		}
	}
	// every Unicode code point (surrogates excluded: not encodable), alone and between two ASCII bytes: the quoting
	// works rune by rune, and single runes (U+FFFD, U+0080..U+00FF, U+2028, non-printables) have their own escapes
	step := rune(1)
	if os.Getenv("VERIF_TIER") != "thorough" {
		step = 7 // quick: every code point below U+3000 and around the special ones, every 7th elsewhere
	}
	for r := rune(0); r <= 0x10FFFF; r++ {
		if r >= 0xD800 && r <= 0xDFFF {
			continue
		}
		if step > 1 && r >= 0x3000 && !(r >= 0xFE00 && r <= 0x10100) && !(r >= 0xE0000 && r <= 0xE0200) && r < 0x10FF00 && r%step != 0 {
			continue
		}
		enc := []byte(string(r))
		check(enc)
		check(append(append([]byte{'a'}, enc...), ','))
	}
	if os.Getenv("VERIF_TIER") == "thorough" {
		alpha4 := []byte{'"', '\\', ',', ':', '\n', 0, 'a', '0', 0x80, 0xc3, 0xa9, 0xff}
		for _, a := range alpha4 {
			for _, b := range alpha4 {
				for _, c := range alpha4 {
					for _, d := range alpha4 {
						check([]byte{a, b, c, d})
					}
				}
			}
		}
	}
	fmt.Printf("BOUNDED-CASES %d\n", cases)
	fmt.Printf("BOUNDED-SAMPLE all byte strings of length <= 2; length 3 over %d interesting bytes\n", len(alpha3))
	if fails > 0 {
		t.Fatalf("%d violations of the quote/unquote round trip or of the no-separator clause", fails)
	}
}
