// Bounded stand-in for the postcondition of (*Rearranger).Rearrange (property C03), which is an inductive
// claim about a sort + stack + squash pipeline that the deductive engine does not reach:
//
//	ensures forall client (ip, plen) aligned to plen:
//	   lookup(result, ip, plen) == lpm(declared subnets of the client's family, ip, plen)
//
// where lookup is the closest-key-not-above search the RocksDB driver performs on the stored range points
// (key = start address ++ mask byte, a null location stores mask byte 0), and lpm is the definition in the
// property statement: the longest declared subnet of the same address family that contains the client and is
// no longer than the client's own prefix; no location when none does.
//
// BOUND: all sets of 1..3 (quick) / 1..4 (thorough) distinct subnets from the fixed universe below (edges of
// the address space, the IPv4-mapped block and its neighbours, nested and adjacent subnets, default routes),
// each set once with pairwise distinct locations and once with its members alternating between two locations,
// probed at every declared boundary +-1 and at fixed anchors, with full-length and network-aligned shorter
// client prefixes. Labelled bounded; never counted as proved.
package dnsdata

import (
	"bytes"
	"fmt"
	"net"
	"os"
	"sort"
	"testing"
)

type vbSubnet struct {
	cidr string
	n    *net.IPNet // normalised like Rnet.UnmarshalText: 16-byte IP, 128-bit mask
	v4   bool
	ones int
	loc  []byte
}

func vbParse(t *testing.T, cidr string, i int) vbSubnet {
	var r Rnet
	lo := fmt.Sprintf("%c%c", 'a'+i/26, 'a'+i%26)
	if err := r.UnmarshalText([]byte("%" + lo + "," + cidr + ",mm")); err != nil {
		t.Fatalf("cannot parse %q: %v", cidr, err)
	}
	ones, _ := r.ipnet.Mask.Size()
	return vbSubnet{cidr: cidr, n: r.ipnet, v4: r.ipnet.IP.To4() != nil, ones: ones, loc: []byte(r.lo)}
}

type vbKey struct {
	key []byte // 16 bytes address + mask byte
	loc []byte // nil for the null location
}

func vbTable(pts RangePoints) ([]vbKey, string) {
	var ks []vbKey
	for _, p := range pts {
		ip := p.To16()
		k := append([]byte{}, ip[:]...)
		if p.LocIsNull() {
			k = append(k, MlenNoLoc)
			ks = append(ks, vbKey{k, nil})
		} else {
			k = append(k, p.MaskLen())
			ks = append(ks, vbKey{k, append([]byte{}, p.LocID()...)})
		}
	}
	sort.SliceStable(ks, func(i, j int) bool { return bytes.Compare(ks[i].key, ks[j].key) < 0 })
	for i := 1; i < len(ks); i++ {
		if bytes.Equal(ks[i-1].key, ks[i].key) && !bytes.Equal(ks[i-1].loc, ks[i].loc) {
			return ks, fmt.Sprintf("two range points share the key %v with different locations", ks[i].key)
		}
	}
	return ks, ""
}

// closest key <= (ip, plen128); returns the location (nil: none) and the stored mask byte
func vbLookup(ks []vbKey, ip net.IP, plen128 int) ([]byte, int) {
	probe := append(append([]byte{}, ip.To16()...), byte(plen128))
	i := sort.Search(len(ks), func(i int) bool { return bytes.Compare(ks[i].key, probe) > 0 })
	if i == 0 {
		return nil, 0
	}
	return ks[i-1].loc, int(ks[i-1].key[16])
}

func vbLPM(set []vbSubnet, ip net.IP, plen128 int) ([]byte, int) {
	v4 := ip.To4() != nil
	best := -1
	for i, s := range set {
		if s.v4 != v4 || s.ones > plen128 || !s.n.Contains(ip) {
			continue
		}
		if best < 0 || s.ones > set[best].ones {
			best = i
		}
	}
	if best < 0 {
		return nil, 0
	}
	return set[best].loc, set[best].ones
}

func vbAdd(ip net.IP, d int) net.IP {
	r := append(net.IP{}, ip.To16()...)
	for i := 15; i >= 0; i-- {
		v := int(r[i]) + d
		r[i] = byte(v & 0xff)
		if v >= 0 && v <= 255 {
			return r
		}
		if v < 0 {
			d = -1
		} else {
			d = 1
		}
	}
	return nil // wrapped
}

func vbLast(n *net.IPNet) net.IP {
	r := append(net.IP{}, n.IP.To16()...)
	for i := range r {
		r[i] |= ^n.Mask[i]
	}
	return r
}

func TestVerifBoundedRearrangeLPM(t *testing.T) {
	universe := []string{
		"::/0", "0.0.0.0/0", "::/1", "::/8", "::/79", "::/80", "::/81", "::/96", "::/127", "::/128",
		"0:0:0:0:1::/80", "8000::/1", "ffff::/16", "ffff:ffff:ffff:ffff:ffff:ffff:ffff:ffff/128", "2001:db8::/32", "2001:db8::/48", "2001:db8:0:1::/64",
		"0.0.0.0/1", "0.0.0.0/8", "0.0.0.0/32", "10.0.0.0/8", "10.0.0.0/24", "10.0.0.128/25", "10.0.1.0/24", "10.64.0.0/10", "10.128.0.0/16", "128.0.0.0/1", "255.255.255.255/32", "255.255.255.0/24",
	}
	maxSet := 3
	if os.Getenv("VERIF_TIER") == "thorough" {
		maxSet = 4
	}
	subs := make([]vbSubnet, len(universe))
	for i, c := range universe {
		subs[i] = vbParse(t, c, i)
	}
	anchors := []net.IP{net.ParseIP("::"), net.ParseIP("::1"), net.ParseIP("::fffe:ffff:ffff"), net.ParseIP("::ffff:0:0"), net.ParseIP("::ffff:9.9.9.9"),
		net.ParseIP("::ffff:255.255.255.255"), net.ParseIP("0:0:0:0:1::"), net.ParseIP("0:0:0:0:1::1"), net.ParseIP("1::1"), net.ParseIP("100::"), net.ParseIP("300::1"),
		net.ParseIP("7fff::1"), net.ParseIP("8000::"), net.ParseIP("2001:db8::1"), net.ParseIP("fffe::1"), net.ParseIP("ffff:ffff:ffff:ffff:ffff:ffff:ffff:ffff")}
	cases, fails, failSets := 0, 0, 0
	var idx []int
	var rec func(start, size int)
	sameLoc := false // second pass: the members of a set alternate between two locations (nested and adjacent subnets of ONE location)
	check := func() {
		setFailed := false
		set := make([]vbSubnet, len(idx))
		r := NewRearranger(len(idx))
		desc := ""
		for k, i := range idx {
			set[k] = subs[i]
			if sameLoc {
				set[k].loc = []byte{'s', byte('0' + k%2)}
			}
			desc += subs[i].cidr + "->" + string(set[k].loc) + " "
			if err := r.AddLocation(subs[i].n, set[k].loc); err != nil {
				t.Fatalf("AddLocation(%s): %v", subs[i].cidr, err)
			}
		}
		ks, dup := vbTable(r.Rearrange())
		if dup == "" {
			// Rearrange is called once per consumer (MarshalMap, OpenScanner): a second call must give the same table
			ks2, dup2 := vbTable(r.Rearrange())
			same := dup2 == "" && len(ks) == len(ks2)
			for i := 0; same && i < len(ks); i++ {
				same = bytes.Equal(ks[i].key, ks2[i].key) && bytes.Equal(ks[i].loc, ks2[i].loc)
			}
			if !same {
				dup = "a second call of Rearrange gives a different table"
			}
		}
		if dup != "" {
			fails++
			failSets++
			if failSets <= 25 {
				fmt.Printf("BOUNDED-FAIL subnets=[%s] %s\n", desc, dup)
			}
			return
		}
		probes := append([]net.IP{}, anchors...)
		for _, s := range set {
			first, last := s.n.IP, vbLast(s.n)
			for _, p := range []net.IP{first, last, vbAdd(first, -1), vbAdd(last, 1), vbAdd(first, 1)} {
				if p != nil {
					probes = append(probes, p)
				}
			}
		}
		for _, p := range probes {
			plens := []int{128}
			// network-aligned shorter client prefixes
			for _, l := range []int{127, 120, 112, 106, 105, 104, 97, 96, 80, 64, 48, 33, 32, 8, 1, 0} {
				m := net.CIDRMask(l, 128)
				if p.Mask(m).Equal(p) && (p.To4() == nil || l >= 96) {
					plens = append(plens, l)
				}
			}
			for _, pl := range plens {
				cases++
				gotLoc, gotMask := vbLookup(ks, p, pl)
				wantLoc, wantMask := vbLPM(set, p, pl)
				if !bytes.Equal(gotLoc, wantLoc) || (wantLoc != nil && gotMask != wantMask) {
					fails++
					if !setFailed {
						setFailed = true
						failSets++
						if failSets <= 25 {
							fmt.Printf("BOUNDED-FAIL subnets=[%s] client=%s/%d got=(%q,%d) want=(%q,%d)\n", desc, p, pl, gotLoc, gotMask, wantLoc, wantMask)
						}
					}
				}
			}
		}
	}
	rec = func(start, size int) {
		if len(idx) == size {
			check()
			return
		}
		for i := start; i < len(subs); i++ {
			idx = append(idx, i)
			rec(i+1, size)
			idx = idx[:len(idx)-1]
		}
	}
	for size := 1; size <= maxSet; size++ { // smallest failing sets are reported first
		rec(0, size)
	}
	sameLoc = true
	for size := 2; size <= maxSet; size++ {
		rec(0, size)
	}
	fmt.Printf("BOUNDED-CASES %d\n", cases)
	fmt.Printf("BOUNDED-SAMPLE universe of %d subnets, all sets of size 1..%d, %d (client, prefix) probes\n", len(universe), maxSet, cases)
	if fails > 0 {
		t.Fatalf("%d subnet sets (%d probes) where the range-point table disagrees with longest-prefix match", failSets, fails)
	}
}
