// Bounded stand-in for the equivalence lemma of property C02 — the label-by-label readers (CDB, RocksDB v1 keys)
// and the closest-key reader (RocksDB v2 keys) compute the same function of (data file, query, client) — which
// is an induction over whole walks that the deductive engine only covers round by round:
//
//	forall data file D, query q, client c:  answer(cdb(D), q, c) == answer(rdb-v1(D), q, c) == answer(rdb-v2(D), q, c)
//
// (rcode, AA, and the answer/authority/additional sections as sets of records).
// BOUND: D = a base zone plus every subset of size <= 2 (thorough: <= 3) of 15 optional building blocks
// (located and global addresses, wildcards at two depths, a delegation with located and global NS, a child zone,
// CNAME, TXT, a deep name, a name with a non-wildcard-safe label, an exact and a wildcard resolver map with their own subnet table, a map with no subnet table); q over
// 17 names x 6 types; c over four clients (no location, lA, lB, and one only the mapped table locates). Labelled bounded; never counted as proved.
package dnsserver

import (
	"fmt"
	"os"
	"path"
	"sort"
	"strings"
	"testing"

	"github.com/coredns/coredns/plugin/pkg/dnstest"
	"github.com/miekg/dns"

	"github.com/facebookincubator/dns/dnsrocks/dnsdata/cdb"
	"github.com/facebookincubator/dns/dnsrocks/dnsdata/rdb"
	"github.com/facebookincubator/dns/dnsrocks/dnsserver/stats"
	"github.com/facebookincubator/dns/dnsrocks/dnsserver/test"
)

const vbBase = `%lA,10.1.0.0/16
%lB,10.2.0.0/16
Zexample.com,a.ns.example.com,dns.example.com,123,7200,1800,604800,120,120,,
&example.com,,a.ns.example.com,172800,,
+a.ns.example.com,5.5.5.5,172800,,
`

var vbBlocks = []string{
	"+www.example.com,1.1.1.1,180,,\n",
	"+www.example.com,1.1.1.2,180,,lA\n",
	"+*.wild.example.com,2.2.2.2,180,,\n",
	"+*.example.com,2.2.2.3,180,,\n",
	"&sub.example.com,,ns.sub.example.com,172800,,\n+ns.sub.example.com,6.6.6.6,172800,,\n",
	"&sub.example.com,,c.ns.example.com,172800,,lA\n+c.ns.example.com,5.5.5.7,172800,,\n",
	"Zsub2.example.com,a.ns.example.com,dns.example.com,124,7200,1800,604800,120,120,,\n&sub2.example.com,,a.ns.example.com,172800,,\n+www.sub2.example.com,7.7.7.7,180,,\n",
	"Cwww2.example.com,www.example.com,180,,\n",
	"'txt.example.com,hello,300,,\n'txt.example.com,located,300,,lB\n",
	"+a.b.c.example.com,3.3.3.3,180,,\n",
	"+*.c.example.com,3.3.3.4,180,,lA\n",
	"&example.com,,d.ns.example.com,172800,,lB\n+d.ns.example.com,5.5.5.8,172800,,\n",
	// an EXACT resolver map on the apex (applies to the apex only, never to names below it) with its own subnet
	// table, and a record for the location only that table yields
	"Mexample.com,m1\n%lC,10.3.0.0/16,m1\n+www.example.com,9.9.9.9,180,,lC\n'example.com,apex for lC,300,,lC\n",
	// a map WITHOUT any subnet line (its names must get no location from it), next to a map whose last range point
	// carries a location (a subnet that reaches the end of the address space)
	"Mtxt.example.com,m2\n%lB,ff00::/8,m0\nMnx2.example.com,m0\n",
	// a WILDCARD resolver map below c.example.com (applies to every name below it) with the same table
	"M*.c.example.com,m1\n%lC,10.3.0.0/16,m1\n+a.b.c.example.com,9.9.9.8,180,,lC\n",
}

type vbBackend struct {
	name string
	h    *FBDNSDB
}

func vbOpen(t *testing.T, p, drv string) *FBDNSDB {
	h, err := NewFBDNSDBBasic(HandlerConfig{}, DBConfig{Path: p, Driver: drv, ReloadInterval: 100}, CacheConfig{Enabled: false},
		&TextLogger{IoWriter: vbDiscard{}}, &stats.DummyStats{})
	if err != nil {
		t.Fatal(err)
	}
	if err := h.Load(); err != nil {
		t.Fatal(err)
	}
	return h
}

type vbDiscard struct{}

func (vbDiscard) Write(p []byte) (int, error) { return len(p), nil }

func vbAnswer(h *FBDNSDB, name string, qtype uint16, remote string) string {
	req := new(dns.Msg)
	req.SetQuestion(name, qtype)
	rec := dnstest.NewRecorder(&test.ResponseWriterCustomRemote{RemoteIP: remote})
	rc, err := h.ServeDNSWithRCODE(CreateTestContext(8), rec, req)
	if err != nil || rec.Msg == nil {
		return fmt.Sprintf("rcode=%d err=%v nomsg", rc, err)
	}
	sec := func(rrs []dns.RR) string {
		var out []string
		for _, rr := range rrs {
			if rr.Header().Rrtype == dns.TypeOPT {
				continue
			}
			out = append(out, strings.Join(strings.Fields(rr.String()), " "))
		}
		sort.Strings(out)
		return strings.Join(out, " | ")
	}
	m := rec.Msg
	return fmt.Sprintf("rcode=%d aa=%v AN[%s] NS[%s] AR[%s]", m.Rcode, m.Authoritative, sec(m.Answer), sec(m.Ns), sec(m.Extra))
}

func TestVerifBoundedBackendsAgree(t *testing.T) {
	maxBlocks := 2
	if os.Getenv("VERIF_TIER") == "thorough" {
		maxBlocks = 3
	}
	names := []string{"example.com.", "www.example.com.", "WWW.Example.COM.", "www2.example.com.", "txt.example.com.", "nx.example.com.",
		"x.wild.example.com.", "y.x.wild.example.com.", "bad!.wild.example.com.", "wild.example.com.", "sub.example.com.", "host.sub.example.com.",
		"a.b.c.example.com.", "b.c.example.com.", "z.c.example.com.", "c.example.com.", "sub2.example.com.", "www.sub2.example.com."}
	types := []uint16{dns.TypeA, dns.TypeAAAA, dns.TypeNS, dns.TypeSOA, dns.TypeTXT, dns.TypeCNAME}
	clients := []string{"1.2.3.4", "10.1.0.1", "10.2.0.1", "10.3.0.1"}
	root := t.TempDir()
	cases, fails, sets := 0, 0, 0
	var idx []int
	check := func() {
		sets++
		data := vbBase
		desc := ""
		for _, i := range idx {
			data += vbBlocks[i]
			desc += fmt.Sprintf("#%d ", i)
		}
		dir := path.Join(root, fmt.Sprintf("d%d", sets))
		if err := os.Mkdir(dir, 0o755); err != nil {
			t.Fatal(err)
		}
		in := path.Join(dir, "data.in")
		if err := os.WriteFile(in, []byte(data), 0o644); err != nil {
			t.Fatal(err)
		}
		cdbPath := path.Join(dir, "data.cdb")
		if _, err := cdb.CreateCDB(in, cdbPath, cdb.NewDefaultCreatorOptions()); err != nil {
			t.Fatal(err)
		}
		v1, v2 := path.Join(dir, "v1"), path.Join(dir, "v2")
		os.Mkdir(v1, 0o755)
		os.Mkdir(v2, 0o755)
		if _, err := rdb.CompileToSpecificRDBVersion(in, v1, rdb.CompilationOptions{}); err != nil {
			t.Fatal(err)
		}
		if _, err := rdb.CompileToSpecificRDBVersion(in, v2, rdb.CompilationOptions{UseV2KeySyntax: true}); err != nil {
			t.Fatal(err)
		}
		bs := []vbBackend{{"cdb", vbOpen(t, cdbPath, "cdb")}, {"rocksdb-v1", vbOpen(t, v1, "rocksdb")}, {"rocksdb-v2", vbOpen(t, v2, "rocksdb")}}
		for _, n := range names {
			for _, qt := range types {
				for _, c := range clients {
					cases++
					ref := vbAnswer(bs[0].h, n, qt, c)
					for _, b := range bs[1:] {
						if got := vbAnswer(b.h, n, qt, c); got != ref {
							fails++
							if fails <= 15 {
								fmt.Printf("BOUNDED-FAIL blocks=[%s] query=%s %s client=%s\n   cdb:        %s\n   %s: %s\n", desc, n, dns.TypeToString[qt], c, ref, b.name, got)
							}
						}
					}
				}
			}
		}
		for _, b := range bs {
			b.h.Close()
		}
		os.RemoveAll(dir)
	}
	var rec func(start int)
	rec = func(start int) {
		check()
		if len(idx) == maxBlocks {
			return
		}
		for i := start; i < len(vbBlocks); i++ {
			idx = append(idx, i)
			rec(i + 1)
			idx = idx[:len(idx)-1]
		}
	}
	rec(0)
	fmt.Printf("BOUNDED-CASES %d\n", cases)
	fmt.Printf("BOUNDED-SAMPLE %d data files (base zone + <= %d of %d blocks) x %d names x %d types x %d clients, three storage configurations\n", sets, maxBlocks, len(vbBlocks), len(names), len(types), len(clients))
	if fails > 0 {
		t.Fatalf("%d queries answered differently by the storage configurations", fails)
	}
}
