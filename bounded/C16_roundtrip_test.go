// Bounded stand-in for the composition lemma of property C16, which joins the contracts of writer.Put,
// writer.Close (table building with linear probing) and Cdb.find (probe discipline) through a file — an
// induction over all table layouts that the deductive engine does not do:
//
//	forall sequences of Put(k_i, v_i):  for every key k, FindStart + FindNext(k)* yields exactly the values
//	put under k, in insertion order, then io.EOF (and io.EOF again); keys never put yield io.EOF at once.
//
// BOUND: every sequence of 0..4 (thorough: 0..5) puts over a universe of 7 keys: the empty key, two keys with
// the same FULL 32-bit hash (found by search at start-up), two further keys in the same 256-way table, two
// unrelated keys; values are distinct per position. Labelled bounded; never counted as proved.
package cdb

import (
	"bytes"
	"errors"
	"fmt"
	"io"
	"os"
	"path"
	"testing"
)

func vbHash(k []byte) uint32 {
	h := cdbHash()
	h.Write(k)
	return h.Sum32()
}

func TestVerifBoundedCdbRoundTrip(t *testing.T) {
	// a pair of distinct keys with the same full hash
	seen := map[uint32][]byte{}
	var c1, c2 []byte
	alpha := []byte("abcdefghijklmnopqrstuvwxyzABCDEFGHIJKLMNOPQRSTUVWXYZ0123456789-_")
search:
	for _, a := range alpha {
		for _, b := range alpha {
			for _, c := range alpha {
				for _, d := range alpha {
					k := []byte{a, b, c, d}
					h := vbHash(k)
					if o, ok := seen[h]; ok {
						c1, c2 = o, k
						break search
					}
					seen[h] = k
				}
			}
		}
	}
	seen = nil
	if c1 == nil {
		t.Fatal("no full-hash collision found among 4-byte keys")
	}
	// two more keys in the same table as c1 (same hash modulo 256), different full hash
	var s1, s2 []byte
	for i := 0; s2 == nil && i < 1<<20; i++ {
		k := []byte(fmt.Sprintf("t%d", i))
		if vbHash(k)%256 == vbHash(c1)%256 && vbHash(k) != vbHash(c1) {
			if s1 == nil {
				s1 = k
			} else {
				s2 = k
			}
		}
	}
	keys := [][]byte{{}, c1, c2, s1, s2, []byte("example.com"), []byte("\000\000\003www\007example\003com\000")}
	maxLen := 4
	if os.Getenv("VERIF_TIER") == "thorough" {
		maxLen = 5
	}
	file := path.Join(t.TempDir(), "b.cdb")
	cases, fails := 0, 0
	var seq []int
	check := func() {
		cases++
		w, err := NewWriter(file)
		if err != nil {
			t.Fatal(err)
		}
		want := map[int][][]byte{}
		for pos, ki := range seq {
			v := []byte(fmt.Sprintf("value-%d-of-%d", pos, ki))
			if pos%2 == 1 {
				v = []byte{} // empty values are values too
			}
			if err := w.Put(keys[ki], v); err != nil {
				t.Fatal(err)
			}
			want[ki] = append(want[ki], v)
		}
		if err := w.Close(); err != nil {
			t.Fatal(err)
		}
		c, err := Open(file)
		if err != nil {
			t.Fatal(err)
		}
		defer c.Close()
		ctx := NewContext()
		for ki, k := range keys {
			c.FindStart(ctx)
			var got [][]byte
			var last error
			for n := 0; n < len(seq)+2; n++ {
				v, err := c.FindNext(k, ctx)
				if err != nil {
					last = err
					break
				}
				got = append(got, append([]byte{}, v...))
			}
			okv := len(got) == len(want[ki])
			for i := 0; okv && i < len(got); i++ {
				okv = bytes.Equal(got[i], want[ki][i])
			}
			if !okv || !errors.Is(last, io.EOF) {
				fails++
				if fails <= 20 {
					fmt.Printf("BOUNDED-FAIL puts=%v key#%d %q: got %q (then %v), want %q then EOF\n", seq, ki, k, got, last, want[ki])
				}
				continue
			}
			if _, err := c.FindNext(k, ctx); !errors.Is(err, io.EOF) {
				fails++
				if fails <= 20 {
					fmt.Printf("BOUNDED-FAIL puts=%v key#%d %q: end of data is not sticky (%v)\n", seq, ki, k, err)
				}
			}
		}
	}
	var rec func()
	rec = func() {
		check()
		if len(seq) == maxLen {
			return
		}
		for ki := range keys {
			seq = append(seq, ki)
			rec()
			seq = seq[:len(seq)-1]
		}
	}
	rec()
	// key-length sweep: one record per key length 1..300 (the key hash has length-dependent code paths: keys of
	// 96..191 bytes were once hashed differently by writer and reader), each looked up after a second put
	for n := 1; n <= 300; n++ { // (the empty key is keys[0] of the enumeration above)
		long := make([]byte, n)
		for i := range long {
			long[i] = byte('a' + (i*7+n)%26)
		}
		keys[5] = long
		seq = []int{5, 6}
		check()
	}
	seq = nil
	fmt.Printf("BOUNDED-CASES %d\n", cases)
	fmt.Printf("BOUNDED-SAMPLE full-hash collision pair %q/%q (hash %08x), same-table keys %q %q; all put sequences of length <= %d over 7 keys\n", c1, c2, vbHash(c1), s1, s2, maxLen)
	if fails > 0 {
		t.Fatalf("%d violations of: a written CDB returns every value, in order, and nothing else", fails)
	}
}

// Large tables: 20000 distinct keys (about 78 records in each of the 256 tables, so every slot list grows well past
// any small reserved capacity), one key with 100 values interleaved with the others, 500 absent keys. Every key must
// return exactly its values in put order, then io.EOF.
func TestVerifBoundedCdbRoundTripLarge(t *testing.T) {
	dir := t.TempDir()
	fn := path.Join(dir, "large.cdb")
	w, err := NewWriter(fn)
	if err != nil {
		t.Fatal(err)
	}
	want := map[string][]string{}
	put := func(k, v string) {
		if err := w.Put([]byte(k), []byte(v)); err != nil {
			t.Fatalf("Put(%q): %v", k, err)
		}
		want[k] = append(want[k], v)
	}
	for i := 0; i < 20000; i++ {
		put(fmt.Sprintf("key-%d", i), fmt.Sprintf("value-%d", i))
		if i%200 == 0 {
			put("pool.example.com.", fmt.Sprintf("192.0.2.%d", i/200))
		}
	}
	if err := w.Close(); err != nil {
		t.Fatal(err)
	}
	c, err := Open(fn)
	if err != nil {
		t.Fatal(err)
	}
	defer c.Close()
	ctx := NewContext()
	check := func(k string, vals []string) {
		c.FindStart(ctx)
		for i, v := range vals {
			got, err := c.FindNext([]byte(k), ctx)
			if err != nil {
				t.Fatalf("BOUNDED-FAIL key %q: value #%d of %d: error %v", k, i, len(vals), err)
			}
			if !bytes.Equal(got, []byte(v)) {
				t.Fatalf("BOUNDED-FAIL key %q: value #%d: got %q, want %q", k, i, got, v)
			}
		}
		if _, err := c.FindNext([]byte(k), ctx); !errors.Is(err, io.EOF) {
			t.Fatalf("BOUNDED-FAIL key %q: after %d values: %v, want io.EOF", k, len(vals), err)
		}
	}
	for k, vals := range want {
		check(k, vals)
	}
	for i := 0; i < 500; i++ {
		check(fmt.Sprintf("absent-%d", i), nil)
	}
}
