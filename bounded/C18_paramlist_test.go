// Bounded stand-in for the clauses of property C18 that rest on sort.SliceStable and on the bytes.Buffer
// wire writers, which the deductive engine only has as assumed contracts:
//
//	forall accepted parameter list t:
//	   view(ToWire(FromText(t))) has strictly increasing keys, exactly the declared ones;
//	   a 'mandatory' value is a strictly increasing list of key numbers, none 0, each present in the list;
//	   ToWire(FromText(ToText(FromText(t)))) == ToWire(FromText(t))
//	forall t whose 'mandatory' names a missing key, repeats a key or names itself: FromText(t) fails.
//
// view() is the TLV reading of RFC 9460 section 2.2 (key:2 length:2 value). BOUND: every ordered selection of
// 1..3 (thorough: 1..4) of the seven supported keys with one sample value each, combined with every ordered
// selection of 0..3 keys as the 'mandatory' value. Labelled bounded; never counted as proved.
package svcb

import (
	"bytes"
	"encoding/binary"
	"fmt"
	"os"
	"strings"
	"testing"
)

type vbTLV struct {
	key uint16
	val []byte
}

func vbView(w []byte) ([]vbTLV, error) {
	var out []vbTLV
	for len(w) > 0 {
		if len(w) < 4 {
			return nil, fmt.Errorf("truncated header")
		}
		k, l := binary.BigEndian.Uint16(w), int(binary.BigEndian.Uint16(w[2:]))
		if len(w) < 4+l {
			return nil, fmt.Errorf("truncated value")
		}
		out = append(out, vbTLV{k, w[4 : 4+l]})
		w = w[4+l:]
	}
	return out, nil
}

func TestVerifBoundedParamList(t *testing.T) {
	names := []string{"alpn", "no-default-alpn", "port", "ipv4hint", "echconfig", "ipv6hint"}
	nums := map[string]uint16{"mandatory": 0, "alpn": 1, "no-default-alpn": 2, "port": 3, "ipv4hint": 4, "echconfig": 5, "ipv6hint": 6}
	for n, k := range nums {
		if got, ok := strToParamNum[n]; !ok || uint16(got) != k {
			t.Fatalf("key table: %s is %v, RFC 9460 says %d", n, got, k)
		}
	}
	sample := map[string]string{"alpn": "h3|h2", "no-default-alpn": "", "port": "8443", "ipv4hint": "192.0.2.1|192.0.2.2", "echconfig": "aGVsbG8=", "ipv6hint": "2001:db8::1"}
	maxKeys := 3
	if os.Getenv("VERIF_TIER") == "thorough" {
		maxKeys = 4
	}
	// all ordered selections of up to n names
	var selections func(pool []string, n int) [][]string
	selections = func(pool []string, n int) [][]string {
		out := [][]string{{}}
		if n == 0 {
			return out
		}
		for i, p := range pool {
			rest := append(append([]string{}, pool[:i]...), pool[i+1:]...)
			for _, s := range selections(rest, n-1) {
				out = append(out, append([]string{p}, s...))
			}
		}
		return out
	}
	uniq := func(x [][]string) [][]string {
		seen := map[string]bool{}
		var out [][]string
		for _, s := range x {
			k := strings.Join(s, ",")
			if !seen[k] {
				seen[k] = true
				out = append(out, s)
			}
		}
		return out
	}
	cases, fails := 0, 0
	bad := func(format string, a ...interface{}) {
		fails++
		if fails <= 20 {
			fmt.Printf("BOUNDED-FAIL "+format+"\n", a...)
		}
	}
	mandPool := append([]string{"mandatory"}, names...)
	for _, keys := range uniq(selections(names, maxKeys)) {
		if len(keys) == 0 {
			continue
		}
		for _, mand := range uniq(selections(mandPool, 3)) {
			for pos := 0; pos <= len(keys); pos += len(keys) { // 'mandatory' first or last in the text
				var parts []string
				for _, k := range keys {
					parts = append(parts, k+"="+sample[k])
				}
				if len(mand) > 0 {
					m := "mandatory=" + strings.Join(mand, "|")
					if pos == 0 {
						parts = append([]string{m}, parts...)
					} else {
						parts = append(parts, m)
					}
				} else if pos != 0 {
					continue
				}
				text := strings.Join(parts, ";")
				cases++
				// is the list acceptable?
				wantOK := true
				present := map[string]bool{}
				for _, k := range keys {
					present[k] = true
				}
				for _, m := range mand {
					if m == "mandatory" || !present[m] {
						wantOK = false
					}
				}
				var l ParamList
				err := l.FromText([]byte(text))
				if !wantOK {
					if err == nil {
						bad("text=%q accepted although 'mandatory' names itself or a missing key", text)
					}
					continue
				}
				if err != nil {
					bad("text=%q rejected: %v", text, err)
					continue
				}
				var w bytes.Buffer
				if err := l.ToWire(&w); err != nil {
					bad("text=%q ToWire: %v", text, err)
					continue
				}
				tl, err := vbView(w.Bytes())
				if err != nil {
					bad("text=%q wire %x: %v", text, w.Bytes(), err)
					continue
				}
				wantN := len(keys)
				if len(mand) > 0 {
					wantN++
				}
				if len(tl) != wantN {
					bad("text=%q wire %x has %d parameters, declared %d", text, w.Bytes(), len(tl), wantN)
				}
				for i, p := range tl {
					if i > 0 && tl[i-1].key >= p.key {
						bad("text=%q wire %x: keys %d,%d not strictly increasing", text, w.Bytes(), tl[i-1].key, p.key)
					}
					if p.key == 0 {
						if len(p.val) != 2*len(mand) {
							bad("text=%q mandatory value %x has %d keys, declared %d", text, p.val, len(p.val)/2, len(mand))
						}
						for j := 0; j+1 < len(p.val); j += 2 {
							mk := binary.BigEndian.Uint16(p.val[j:])
							if j > 0 && binary.BigEndian.Uint16(p.val[j-2:]) >= mk {
								bad("text=%q mandatory value %x not strictly increasing", text, p.val)
							}
							found := false
							for _, m := range mand {
								found = found || nums[m] == mk
							}
							if !found || mk == 0 {
								bad("text=%q mandatory value %x names key %d which was not declared mandatory", text, p.val, mk)
							}
						}
					} else {
						found := false
						for _, k := range keys {
							found = found || nums[k] == p.key
						}
						if !found {
							bad("text=%q wire %x carries undeclared key %d", text, w.Bytes(), p.key)
						}
					}
				}
				// text round trip
				var txt bytes.Buffer
				l.ToText(&txt)
				var l2 ParamList
				if err := l2.FromText(bytes.ReplaceAll(txt.Bytes(), []byte("\""), nil)); err != nil {
					bad("text=%q printed as %q does not parse: %v", text, txt.Bytes(), err)
					continue
				}
				var w2 bytes.Buffer
				_ = l2.ToWire(&w2)
				if !bytes.Equal(w.Bytes(), w2.Bytes()) {
					bad("text=%q printed as %q compiles to %x, not %x", text, txt.Bytes(), w2.Bytes(), w.Bytes())
				}
			}
		}
	}
	fmt.Printf("BOUNDED-CASES %d\n", cases)
	fmt.Printf("BOUNDED-SAMPLE ordered selections of 1..%d of 6 keys x ordered selections of 0..3 mandatory names x mandatory first/last\n", maxKeys)
	if fails > 0 {
		t.Fatalf("%d violations", fails)
	}
}
