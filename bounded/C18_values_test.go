// Bounded stand-in for the value clause of property C18 (the wire form of each parameter value is what the text
// declared), for the parameters whose values go through library parsers the deductive engine only has as assumed
// contracts (net, strconv, base64):
//
//	forall value texts v of ipv4hint / ipv6hint / port in the corpus below:
//	   FromText("key=v") accepted  ==>  every item of v is an address (number) by the reference reading
//	                                    (net.ParseIP / strconv) and the wire value is exactly the concatenation of
//	                                    the items' 4 / 16 / 2 octets;
//	   an item the reference reading rejects (zone-qualified literals, out-of-range numbers, wrong family) makes
//	   the whole list rejected.
//
// BOUND: the listed corpus (ordinary, boundary and malformed literals), each alone and as second item after an
// ordinary one. Labelled bounded; never counted as proved.
package svcb

import (
	"bytes"
	"fmt"
	"net"
	"strconv"
	"strings"
	"testing"
)

func TestVerifBoundedParamValues(t *testing.T) {
	v6 := []string{"2001:db8::1", "::", "::1", "fe80::1", "fe80::1%eth0", "fe80::1%1", "::ffff:192.0.2.1", "::ffff:192.0.2.1%lo", "2001:db8::1%", "2001:db8:0:0:0:0:0:1", "2001:DB8::A", "1:2:3:4:5:6:7:8", "1:2:3:4:5:6:7:8:9", "2001:db8::g", "[2001:db8::1]", "2001:db8::1/64", " 2001:db8::1", "192.0.2.1", ""}
	v4 := []string{"192.0.2.1", "0.0.0.0", "255.255.255.255", "256.0.0.1", "1.2.3", "1.2.3.4.5", "01.2.3.4", "1.2.3.4%eth0", "::ffff:1.2.3.4%lo", "2001:db8::1", " 1.2.3.4", "1.2.3.4 ", ""}
	ports := []string{"0", "1", "443", "65535", "65536", "-1", "+1", "80a", "0x50", " 80", "", "00080", "4294967376"}
	cases, fails := 0, 0
	bad := func(format string, a ...interface{}) {
		fails++
		if fails <= 20 {
			fmt.Printf("BOUNDED-FAIL "+format+"\n", a...)
		}
	}
	wireOf := func(key, val string) ([]byte, bool) {
		var l ParamList
		if err := l.FromText([]byte(key + "=" + val)); err != nil {
			return nil, false
		}
		var buf bytes.Buffer
		if err := l.ToWire(&buf); err != nil || buf.Len() < 4 {
			return nil, false
		}
		return buf.Bytes()[4:], true
	}
	lists := func(items []string, good string) [][]string {
		var out [][]string
		for _, it := range items {
			out = append(out, []string{it}, []string{good, it})
		}
		return out
	}
	sep := string(valueDelimInternal)
	for _, l := range lists(v6, "2001:db8::2") {
		cases++
		val := strings.Join(l, sep)
		w, ok := wireOf("ipv6hint", val)
		var want []byte
		ref := true
		for _, it := range l {
			ip := net.ParseIP(it)
			if ip == nil || !strings.Contains(it, ":") {
				ref = false
				break
			}
			want = append(want, ip.To16()...)
		}
		if ok && !ref {
			bad("ipv6hint=%q accepted (wire %x) although %q is not an IPv6 address literal", val, w, l)
		} else if ok && !bytes.Equal(w, want) {
			bad("ipv6hint=%q: wire %x, declared %x", val, w, want)
		}
	}
	for _, l := range lists(v4, "192.0.2.2") {
		cases++
		val := strings.Join(l, sep)
		w, ok := wireOf("ipv4hint", val)
		var want []byte
		ref := true
		for _, it := range l {
			ip := net.ParseIP(it)
			if ip == nil || ip.To4() == nil {
				ref = false
				break
			}
			want = append(want, ip.To4()...)
		}
		if ok && !ref {
			bad("ipv4hint=%q accepted (wire %x) although %q is not an IPv4 address literal", val, w, l)
		} else if ok && !bytes.Equal(w, want) {
			bad("ipv4hint=%q: wire %x, declared %x", val, w, want)
		}
	}
	for _, p := range ports {
		cases++
		w, ok := wireOf("port", p)
		n, err := strconv.ParseUint(p, 10, 16)
		if ok && err != nil {
			bad("port=%q accepted (wire %x) although it is not a 16-bit decimal number", p, w)
		} else if ok && !bytes.Equal(w, []byte{byte(n >> 8), byte(n)}) {
			bad("port=%q: wire %x, declared %d", p, w, n)
		}
	}
	fmt.Printf("BOUNDED-CASES %d\n", cases)
	fmt.Printf("BOUNDED-SAMPLE %d ipv6hint, %d ipv4hint, %d port literals, alone and after an ordinary item\n", len(v6), len(v4), len(ports))
	if fails > 0 {
		t.Fatalf("%d violations of: the wire value of an accepted parameter is what the text declared", fails)
	}
}
