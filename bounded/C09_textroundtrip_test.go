// Bounded stand-in for the two-contract lemma of property C09 (the MarshalText contracts fix the position of
// every field, the UnmarshalText side is not under contract):
//
//	forall well-formed line l of any record type, r = Decode(l), t = MarshalText(r), r2 = Decode(t):
//	   MarshalMap(r2) == MarshalMap(r)  (same keys and values)   and   MarshalText(r2) == t
//
// for both key layouts. BOUND: the cartesian product of small value sets per field (names with wildcards,
// upper case and escaped separators; IPv4/IPv6/absent addresses; absent, zero and maximal numbers; absent and
// binary locations; texts with quotes, separators and control bytes), all 17 line types, both separators for
// the types without IPv6 fields. Labelled bounded; never counted as proved.
package dnsdata

import (
	"bytes"
	"fmt"
	"os"
	"strings"
	"testing"
)

func vbExpand(tmpl string, sets map[string][]string) []string {
	out := []string{tmpl}
	for {
		var next []string
		expanded := false
		for _, o := range out {
			i := strings.Index(o, "{")
			if i < 0 {
				next = append(next, o)
				continue
			}
			expanded = true
			j := strings.Index(o[i:], "}") + i
			vals, ok := sets[o[i+1:j]]
			if !ok {
				panic("no value set " + o[i+1:j])
			}
			for _, v := range vals {
				next = append(next, o[:i]+v+o[j+1:])
			}
		}
		out = next
		if !expanded {
			return out
		}
	}
}

func TestVerifBoundedTextRoundTrip(t *testing.T) {
	thorough := os.Getenv("VERIF_TIER") == "thorough"
	sets := map[string][]string{
		"dom":  {"example.com", "UPPER.Example.COM", `a\054b.example.com`, "xn--bcher-kva.example", "."},
		"wdom": {"www.example.com", "*.wild.example.com", "Mixed.Case.example.com", `\052.esc.example.com`, `*\056dot.example.com`},
		"host": {"ns1.example.net", "a.b.c.d.example.org."},
		"ip":   {"", "1.2.3.4", "2001:db8::1"},
		"ip4":  {"1.2.3.4", "255.255.255.255"},
		"ttl":  {"", "0", "300", "4294967295"},
		"num":  {"", "0", "7", "65535"},
		"lo":   {"", "lA", `\000\001`, `\377\101`},
		"w":    {"", "0", "1", "1000"},
		"txt":  {"hello", `with\054comma`, `q\"uote and \134 backslash`, `\000\001\377`, ""},
		"type": {"257", "99", "65280"},
		"map":  {"ec", `\000\001`},
		"cidr": {"10.0.0.0/8", "2001:db8::/32", "0.0.0.0/0", "::/0", "192.0.2.1"},
		"prio": {"0", "1", "65535"},
		"prm":  {"", "alpn=h2", "alpn=h3|h2;port=8443;ipv4hint=192.0.2.1"},
	}
	if !thorough {
		// quick tier: fewer values for the widest products
		sets["ttl"] = []string{"", "0", "4294967295"}
		sets["txt"] = []string{"hello", `with\054comma`, `q\"uote and \134 backslash`}
	}
	templates := []string{
		"Z{dom},{host},hostmaster.example.com,{num},{num},,{ttl},,{ttl},,{lo}",
		".{dom},{ip},{host},{ttl},,{lo}",
		"&{dom},{ip},{host},{ttl},,{lo}",
		"+{wdom},{ip4},{ttl},,{lo},{w}",
		"+{wdom},2001:db8::2,{ttl},,{lo},{w}",
		"={wdom},{ip4},{ttl},,{lo}",
		"@{dom},{ip},{host},{num},{ttl},,{lo}",
		"S{dom},{ip},{host},{num},{num},{w},{ttl},,{lo}",
		"C{wdom},{host},{ttl},,{lo}",
		"^{dom},{host},{ttl},,{lo}",
		"'{wdom},{txt},{ttl},,{lo}",
		":{dom},{type},{txt},{ttl},,{lo}",
		"M{wdom},{map}",
		"8{wdom},{map}",
		"%{lo},{cidr},{map}",
		"B{dom},{host},{ttl},{lo},{prio},{prm}",
		"H{dom},{host},{ttl},{lo},{prio},{prm}",
	}
	cases, fails, skipped := 0, 0, 0
	bad := func(format string, a ...interface{}) {
		fails++
		if fails <= 25 {
			fmt.Printf("BOUNDED-FAIL "+format+"\n", a...)
		}
	}
	sameMaps := func(a, b []MapRecord) bool {
		if len(a) != len(b) {
			return false
		}
		for i := range a {
			if !bytes.Equal(a[i].Key, b[i].Key) || !bytes.Equal(a[i].Value, b[i].Value) {
				return false
			}
		}
		return true
	}
	for _, v2 := range []bool{false, true} {
		for _, tmpl := range templates {
			lines := vbExpand(tmpl, sets)
			// the original ':' separator for line types that carry no IPv6 text
			if !strings.ContainsAny(tmpl[:1], ".&+=@S%") {
				for _, l := range vbExpand(tmpl, sets) {
					if !strings.Contains(l, ":") || tmpl[0] == ':' {
						lines = append(lines, l[:1]+strings.ReplaceAll(l[1:], ",", ":"))
					}
				}
			}
			for _, line := range lines {
				codec := new(Codec)
				codec.Serial = 12345
				codec.Features.UseV2Keys = v2
				codec.Acc.NoPrefixSets = true
				r, err := codec.DecodeLn([]byte(line))
				if err != nil {
					skipped++ // not a well-formed line (e.g. a location of the wrong length): outside the quantifier
					continue
				}
				cases++
				m1, err := r.MarshalMap()
				if err != nil {
					skipped++
					continue
				}
				t1, err := r.MarshalText()
				if err != nil {
					bad("line=%q: MarshalText: %v", line, err)
					continue
				}
				c2 := new(Codec)
				c2.Serial = 12345
				c2.Features.UseV2Keys = v2
				c2.Acc.NoPrefixSets = true
				r2, err := c2.DecodeLn(t1)
				if err != nil {
					bad("line=%q normal form %q does not parse: %v", line, t1, err)
					continue
				}
				m2, err := r2.MarshalMap()
				if err != nil || !sameMaps(m1, m2) {
					bad("line=%q normal form %q compiles to different keys/values (v2keys=%v): %v\n   first:  %q\n   second: %q", line, t1, v2, err, m1, m2)
					continue
				}
				t2, err := r2.MarshalText()
				if err != nil || !bytes.Equal(t1, t2) {
					bad("line=%q: normal form %q re-serialises as %q", line, t1, t2)
				}
			}
		}
	}
	fmt.Printf("BOUNDED-CASES %d\n", cases)
	fmt.Printf("BOUNDED-SAMPLE %d well-formed lines over 17 line types x 2 key layouts (%d generated lines were rejected by the parser and skipped)\n", cases, skipped)
	if cases < 1000 {
		t.Fatalf("vacuous: only %d lines were accepted", cases)
	}
	if fails > 0 {
		t.Fatalf("%d violations of the text round trip", fails)
	}
}
